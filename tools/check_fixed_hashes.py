#!/usr/bin/env python3
"""Verify that every `fixed:` entry of known_findings.txt names a commit that exists in /repo and starts with 'fix:'."""
import subprocess, sys, os, re
HERE = os.path.dirname(os.path.dirname(os.path.abspath(__file__)))
bad = 0
log = subprocess.run(["git", "-C", "/repo", "log", "--format=%h %s"], capture_output=True, text=True).stdout.splitlines()
hashes = {l.split()[0]: l for l in log}
used = set()
for line in open(os.path.join(HERE, "known_findings.txt")):
    if line.startswith("fixed:"):
        h = line.split()[2]
        used.add(h)
        if h not in hashes or " fix:" not in hashes[h]:
            print("STALE", line.strip()[:100]); bad += 1
for h, l in hashes.items():
    if " fix:" in l and h not in used:
        print("UNRECORDED", l); bad += 1
sys.exit(1 if bad else 0)
