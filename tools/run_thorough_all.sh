#!/bin/bash
# run the thorough tier of the given checks one after the other (each uses 16 shards)
cd "$(dirname "$0")/.."
./setup.sh >/dev/null 2>&1
for c in "$@"; do
  echo "=== $c"; ./check $c --tier thorough 2>&1 | grep -v "^  key" | cut -c1-400 | tail -15
  cp evidence/$c.json evidence-thorough-$c.json 2>/dev/null
done
