#!/usr/bin/env python3
"""python3-vt tools/validate.py : validate MANIFEST.json and evidence/*.json against the schemas."""
import json, glob, os, sys
import jsonschema
HERE = os.path.dirname(os.path.dirname(os.path.abspath(__file__)))
ok = True
jsonschema.validate(json.load(open(HERE + "/MANIFEST.json")), json.load(open("/root/.vp/MANIFEST.schema.json")))
print("MANIFEST ok")
es = json.load(open("/root/.vp/EVIDENCE.schema.json"))
for f in sorted(glob.glob(HERE + "/evidence/C*.json")):
    try:
        jsonschema.validate(json.load(open(f)), es)
        print(os.path.basename(f), "ok")
    except Exception as e:
        ok = False
        print(os.path.basename(f), "INVALID", str(e)[:300])
sys.exit(0 if ok else 1)
