#!/usr/bin/env python3
"""/venv/bin/python tools/c10_minimise.py replays/C10-xxxx.json  -> prints a minimal event list that still shows a difference of the same kind"""
import json, sys, os
sys.path.insert(0, os.path.dirname(os.path.dirname(os.path.abspath(__file__))))
from vf.props import c10
d = json.load(open(sys.argv[1]))
w = d["witness"]
ev = [tuple(e) for e in w["events"]]
kind = d["key"].split(":")[1]
m = c10.minimise(w["initial"], ev, w["args"], w["seed"], w["per_file"], kind)
print(len(ev), "->", len(m), "events")
for e in m:
    print(e[0], e[1], (json.dumps(e[2])[:300] if len(e) > 2 else ""))
_, diffs, _, _ = c10.execute(w["initial"], m, w["args"], w["seed"], w["per_file"])
for k, desc in diffs[:4]:
    print(k, desc[:600])
