#!/usr/bin/env python3
"""Regenerate MANIFEST.json from the property modules' META tables (python3 tools/gen_manifest.py)."""
import json, os, re, sys, ast
HERE = os.path.dirname(os.path.dirname(os.path.abspath(__file__)))
props = [json.loads(l) for l in open(os.path.join(HERE, "properties.jsonl"))]
checks, na = [], []
for p in props:
    pid = p["id"]
    f = os.path.join(HERE, "vf", "props", pid.lower() + ".py")
    meta = None
    if os.path.exists(f):
        src = open(f).read()
        m = re.search(r"^META\s*=\s*(\{.*?^\})", src, re.S | re.M)
        if m:
            meta = ast.literal_eval(m.group(1))
    if meta is None or meta.get("not_applicable"):
        na.append({"property_id": pid, "reason": (meta or {}).get("not_applicable", "check not built yet in this round (see DESIGN.md section 3 for the planned monitor)")})
        continue
    checks.append({
        "property_id": pid,
        "quick_cmd": f"./check {pid} --tier quick",
        "thorough_cmd": f"./check {pid} --tier thorough",
        "evidence_file": f"evidence/{pid}.json",
        "replay_cmd_template": "./check --replay {path}",
        "engine": meta["engine"],
        "level_claimed": {"category": meta.get("category", "exploration"), "text": meta["text"], "design_ref": f"DESIGN.md section 3, {pid}"},
        "level_note": meta["note"],
        "technique": meta["technique"],
    })
man = {
    "version": 1,
    "setup_cmd": "./setup.sh",
    "hooks": {
        "guard": "FORTLS_VERIF",
        "enable": "no source hooks: monitors are attached from outside (recording connection, monkey-patch wrappers, sys.addaudithook, sys.monitoring); checks import fortls from $VERIF_REPO (default /repo) so they always run the current working tree",
        "baseline_off_cmd": "cd /repo && /venv/bin/python -m pytest -ra -q -p no:cacheprovider --timeout=900 --continue-on-collection-errors",
        "source_commits": [],
        "add_only": True,
    },
    "engines": [
        {"name": "vf", "path": "vf/", "serves_properties": [c["property_id"] for c in checks],
         "kind_free_text": "runtime monitoring: real fortls code driven in-process (recording connection at the client boundary) and as a subprocess (own LSP framer), with reference-model, differential, metamorphic, audit-hook and crash/time monitors; sharded driver with watchdogs, three-valued verdicts, known-findings matcher and replay"},
    ],
    "checks": checks,
    "not_applicable": na,
    "notes": "All checks are runtime monitors over generated workloads (level exploration). Compiler sanitizers / race detectors do not apply: fortls is single-threaded pure Python (DESIGN.md section 0).",
}
json.dump(man, open(os.path.join(HERE, "MANIFEST.json"), "w"), indent=1)
print("checks:", [c["property_id"] for c in checks], "n/a:", [n["property_id"] for n in na])
