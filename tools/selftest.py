#!/usr/bin/env python3
"""Kill matrix: apply each mutant (mutants/*.diff and seeded/*/patch.diff) to a scratch worktree of /repo (outside /repo and
/verif), run the quick tier of the named checks with VERIF_REPO pointing at it, expect exit 1 + VIOLATION.

  python3 tools/selftest.py [--with-tests] [--only substr] [--props C01,C02]   -> writes replays/selftest.json (not evidence)
A mutant file starts with comment lines:   # property: C16[,C01]     # expect: <substring of a VIOLATION key>  (optional)
"""
import glob, json, os, re, shutil, subprocess, sys, tempfile, time
HERE = os.path.dirname(os.path.dirname(os.path.abspath(__file__)))
args = sys.argv[1:]
with_tests = "--with-tests" in args
only = args[args.index("--only") + 1] if "--only" in args else None
props_filter = args[args.index("--props") + 1].split(",") if "--props" in args else None
muts = sorted(glob.glob(HERE + "/mutants/*.diff")) + sorted(glob.glob(HERE + "/seeded/*/patch.diff"))
if "--seeded" in args:  # only the independently seeded changes; the outcome is written back into their meta.json
    muts = [m for m in muts if m.endswith("patch.diff")]
rows = []
for m in muts:
    name = os.path.basename(os.path.dirname(m)) if m.endswith("patch.diff") else os.path.basename(m)[:-5]
    if only and only not in name:
        continue
    head = open(m).read(2000)
    pm = re.search(r"#\s*property:\s*([C0-9, ]+)", head)
    if m.endswith("patch.diff"):
        meta = json.load(open(os.path.join(os.path.dirname(m), "meta.json")))
        props = meta["property"] if isinstance(meta["property"], list) else [meta["property"]]
    else:
        props = [p.strip() for p in pm.group(1).split(",")] if pm else []
    if props_filter and not set(props) & set(props_filter):
        continue
    if m.endswith("patch.diff") and str(meta.get("status", "")).startswith("neutralised"):
        print(f"{name:45s} skipped: {meta['status']} (see meta.json)")
        continue
    wt = tempfile.mkdtemp(prefix="vf-mut-")
    os.rmdir(wt)
    subprocess.check_call(["git", "-C", "/repo", "worktree", "add", "-q", "--detach", wt, "HEAD"])
    try:
        r = subprocess.run(["git", "-C", wt, "apply", "--whitespace=nowarn", m], capture_output=True, text=True)
        if r.returncode != 0:
            rows.append({"mutant": name, "props": props, "status": "PATCH-DOES-NOT-APPLY", "detail": r.stderr[-300:]})
            print(name, "PATCH-DOES-NOT-APPLY", r.stderr[-200:]); continue
        tests = None
        if with_tests:
            ptmp = tempfile.mkdtemp(prefix="vf-mut-tmp-", dir="/root/verif_scratch")
            t = subprocess.run(["/venv/bin/python", "-m", "pytest", "-q", "-p", "no:cacheprovider", "-n", "8", "-x", "--deselect", "test/test_interface.py::test_version_update_pypi"],
                               cwd=wt, env=dict(os.environ, PYTHONPATH=wt, TMPDIR=ptmp), capture_output=True, text=True)
            shutil.rmtree(ptmp, ignore_errors=True)
            tests = "pass" if t.returncode == 0 else "FAIL: " + t.stdout[-300:]
        for p in props:
            if props_filter and p not in props_filter:
                continue
            t0 = time.time()
            c = subprocess.run([HERE + "/check", p, "--tier", "quick"], cwd=HERE, env=dict(os.environ, VERIF_REPO=wt), capture_output=True, text=True)
            keys = re.findall(r"key=(\S+)", c.stdout)
            killed = c.returncode == 1 and "VIOLATION property=" + p in c.stdout
            rows.append({"mutant": name, "property": p, "killed": killed, "rc": c.returncode, "keys": keys[:6], "tests": tests, "wall_s": round(time.time() - t0, 1)})
            print(f"{name:45s} {p} {'KILLED' if killed else 'SURVIVED rc=%d' % c.returncode} {keys[:2]} tests={tests} {time.time() - t0:.0f}s", flush=True)
    finally:
        subprocess.run(["git", "-C", "/repo", "worktree", "remove", "--force", wt])
        shutil.rmtree(wt, ignore_errors=True)
if "--seeded" in args:
    for r in rows:
        mp = os.path.join(HERE, "seeded", r["mutant"], "meta.json")
        if os.path.exists(mp) and "property" in r:
            meta = json.load(open(mp))
            meta.setdefault("our_checks_final", {})[r["property"]] = {"killed": r["killed"], "rc": r["rc"], "keys": r["keys"], "wall_s": r["wall_s"]}
            json.dump(meta, open(mp, "w"), indent=1)
os.makedirs(HERE + "/replays", exist_ok=True)
json.dump(rows, open(HERE + "/replays/selftest.json", "w"), indent=1)
surv = [r for r in rows if not r.get("killed")]
print(f"{len(rows) - len(surv)}/{len(rows)} killed")
sys.exit(1 if surv else 0)
