#!/usr/bin/env python3
"""Merge seeded/summary.json into each seeded/<id>/meta.json and regenerate the table in seeded/README.md."""
import json, os, glob
HERE = os.path.dirname(os.path.dirname(os.path.abspath(__file__)))
summ = json.load(open(os.path.join(HERE, "seeded", "summary.json")))
rows = []
for d in sorted(glob.glob(os.path.join(HERE, "seeded", "C*-*"))):
    sid = os.path.basename(d)
    mp = os.path.join(d, "meta.json")
    meta = json.load(open(mp))
    s = summ.get(sid, {})
    if s:
        meta["change"] = s["change"]
        meta["needs_to_manifest"] = s["needs"]
        meta["strengthened"] = s["strengthened"]
    prop = meta["property"]
    first = meta.get("our_checks", {}).get(prop, {})
    final = meta.get("our_checks_final", {}).get(prop, first)
    others = [c for c, v in meta.get("our_checks", {}).items() if c != prop and v.get("killed")]
    meta["caught_by"] = {"check": prop, "keys": final.get("keys", [])[:3], "also": others} if final.get("killed") else None
    json.dump(meta, open(mp, "w"), indent=1)
    now = ("`" + "`, `".join(final.get("keys", [])[:2]) + "`") if final.get("killed") else "NOT CAUGHT"
    if meta.get("status"):
        now = meta["status"] + (" — " + now if final.get("killed") else "")
    rows.append((sid, prop, s.get("change", ""), s.get("needs", ""), "caught" if first.get("killed") else ("missed" + (f" (caught by {', '.join(others)})" if others else "")),
                 now, s.get("strengthened") or ""))
head = open(os.path.join(HERE, "seeded", "README.md")).read().split("\n## Table")[0].rstrip() + "\n"
out = [head, "## Table", "",
       f"{len(rows)} confirmed changes (demonstration fails with the change and passes without it; the repository's 179 tests pass with it). "
       f"First run = quick tier of the property's check as it was when the change arrived; now = after strengthening (`tools/selftest.py --seeded`).", "",
       "| id | change | needs | first run | now: keys | what was strengthened |", "|----|--------|-------|-----------|-----------|-----------------------|"]
for r in rows:
    out.append(f"| {r[0]} | {r[2]} | {r[3]} | {r[4]} | {r[5]} | {r[6]} |")
missed = [r for r in rows if r[4].startswith("missed")]
out += ["", f"First-run misses: {len(missed)} of {len(rows)} ({', '.join(r[0] for r in missed)}); not caught now: {sum(1 for r in rows if r[5] == 'NOT CAUGHT')}; neutralised by later repairs of /repo or decided by another property's check: {sum(1 for r in rows if r[5].startswith('neutralised'))} (see the meta.json of each).", ""]
open(os.path.join(HERE, "seeded", "README.md"), "w").write("\n".join(out))
print(len(rows), "rows;", len(missed), "first-run misses")
