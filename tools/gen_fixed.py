#!/usr/bin/env python3
"""Rewrite the `fixed:` section of known_findings.txt from /repo's fix commits (hashes follow rebases).
The table maps a commit subject to (property, what failed)."""
import os, subprocess, sys
HERE = os.path.dirname(os.path.dirname(os.path.abspath(__file__)))
TABLE = {
 "fix: accept Content-Length after other header fields in JSON-RPC reader": ("C16", "Content-Type header before Content-Length made the reader consume the whole stream (read(None)) and the server die with 'Extra data'; EOF inside a header block looped forever"),
 "fix: do not add a second empty line for inserted text ending in a line break": ("C02", "every inserted text ending in a line break added one line too many to the server's buffer"),
 "fix: go-to-implementation on top-level names and generic bindings returns null": ("C09", "textDocument/implementation on any top-level name (no parent), GENERIC binding or interface member without link answered with an internal error (AttributeError)"),
 "fix: find-references on an intrinsic name returns null instead of an error": ("C09", "textDocument/references and documentHighlight on any intrinsic name answered with an internal error (Intrinsic has no FQSN)"),
 "fix: report diagnostics failures with showMessage, not an error response with id -1": ("C01", "a failing diagnostics pass while handling a notification wrote an error response with id -1"),
 "fix: PROCEDURE statement outside any scope no longer aborts parsing": ("C03", "PROCEDURE statement outside any scope raised AttributeError in parse (file refused)"),
 "fix: blank line after a continued #define no longer raises IndexError": ("C03", "'#define X ... \\' followed by an empty line raised IndexError in preprocess_file (file refused)"),
 "fix: reference search no longer skips adjacent occurrences or names with `$`": ("C06", "references/highlight/rename skipped every second of adjacent occurrences (i=i+1) and never matched names containing $"),
 "fix: config file without pp_suffixes/pp_defs keeps the command-line values": ("C19", "pp_suffixes and pp_defs given on the command line were reset to defaults by any configuration file that does not mention them"),
 "fix: evaluate #if/#elif expressions with a C expression parser instead of eval()": ("C17", "#if/#elif text and macro bodies were passed to eval(): arbitrary code execution from source files; also non-termination (#if 9**9**9**9, C03) and loss of ')' after 'defined X' (C08)"),
 "fix: macro bodies with backslashes or an empty parameter list no longer raise re.error": ("C03", "macro body containing a backslash, or function-like macro with empty parameter list, raised re.error during substitution (file refused); also C08 character-exact expansion"),
 "fix: circular submodule ancestry no longer recurses without bound": ("C20", "submodule naming itself / a descendant as parent: every request on the file failed with RecursionError"),
 "fix: self-referential pointer, ASSOCIATE and procedure links are not followed forever": ("C20", "self-referential pointer / ASSOCIATE / procedure-pointer links: hover, completion and diagnostics failed with RecursionError"),
 "fix: get_overridden() terminates on derived types that extend each other": ("C20", "EXTENDS ring with an overridden binding: references/rename failed with RecursionError in get_overridden"),
 "fix: keep renames from every USE path when a module is reached more than once": ("C05", "rename_map replaced instead of merged when a module is reached by two USE ... ONLY paths: renamed names did not resolve"),
 "fix: a second IMPORT statement without a list no longer breaks diagnostics": ("C03", "IMPORT statement without names after `import <names>` in one interface body made the diagnostics pass fail with KeyError (#import<n> looked up in the object tree)"),
 "fix: completion in a scope with a misplaced IMPORT statement no longer fails": ("C09", "completion anywhere in a scope containing an IMPORT statement outside an interface body answered with an internal error (sample diag/test_import.f90)"),
}
EXTRA = os.path.join(HERE, "tools", "fixed_table_extra.json")
if os.path.exists(EXTRA):
    import json
    TABLE.update({k: tuple(v) for k, v in json.load(open(EXTRA)).items()})
log = subprocess.run(["git", "-C", "/repo", "log", "--reverse", "--format=%h\t%s"], capture_output=True, text=True).stdout.splitlines()
p = os.path.join(HERE, "known_findings.txt")
keep = [l for l in open(p).read().splitlines() if not l.startswith("fixed:")]
out = []
missing = 0
for l in log:
    h, s = l.split("\t", 1)
    if s.startswith("fix:"):
        if s not in TABLE:
            print("no table entry for:", s); missing += 1; continue
        prop, what = TABLE[s]
        out.append(f"fixed: property={prop} {h} {what}")
open(p, "w").write("\n".join(keep).rstrip("\n") + "\n" + "\n".join(out) + "\n")
print(len(out), "fixed entries written")
sys.exit(1 if missing else 0)
