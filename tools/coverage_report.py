#!/usr/bin/env python3
"""Diagnostic (not a check): which lines of fortls does the quick tier of the given checks reach?
  python3 tools/coverage_report.py C03 C09 ...   (default: all)  -> replays/coverage/<prop>.txt and replays/coverage/ALL.txt
Runs each check with VF_COVERAGE set (worker shards record line+branch coverage of /repo/fortls with coverage.py), then
combines.  Lines no check reaches are places where a change cannot be noticed by any monitor: candidates for new workload."""
import glob, os, subprocess, sys, shutil
HERE = os.path.dirname(os.path.dirname(os.path.abspath(__file__)))
props = [a for a in sys.argv[1:] if a.startswith("C")] or [f"C{n:02d}" for n in range(1, 21)]
out = os.path.join(HERE, "replays", "coverage")
os.makedirs(out, exist_ok=True)
scratch = "/root/verif_scratch/cov"
shutil.rmtree(scratch, ignore_errors=True)
os.makedirs(scratch)
py = "/venv/bin/python"
for p in props:
    env = dict(os.environ, VF_COVERAGE=os.path.join(scratch, "data"), VERIF_REPO="/repo")
    r = subprocess.run([os.path.join(HERE, "check"), p, "--tier", "quick"], cwd=HERE, env=env, capture_output=True, text=True)
    print(p, "rc", r.returncode, r.stdout.strip().splitlines()[-1][:160] if r.stdout.strip() else "")
    files = glob.glob(os.path.join(scratch, f"data.{p}.*"))
    if not files:
        continue
    comb = os.path.join(scratch, f"comb.{p}")
    subprocess.run([py, "-m", "coverage", "combine", "--keep", f"--data-file={comb}"] + files, capture_output=True)
    rep = subprocess.run([py, "-m", "coverage", "report", f"--data-file={comb}", "--show-missing", "--skip-empty"], capture_output=True, text=True, cwd="/repo")
    open(os.path.join(out, p + ".txt"), "w").write(rep.stdout)
allf = glob.glob(os.path.join(scratch, "data.*"))
comb = os.path.join(scratch, "comb.ALL")
subprocess.run([py, "-m", "coverage", "combine", "--keep", f"--data-file={comb}"] + allf, capture_output=True)
rep = subprocess.run([py, "-m", "coverage", "report", f"--data-file={comb}", "--show-missing", "--skip-empty"], capture_output=True, text=True, cwd="/repo")
open(os.path.join(out, "ALL.txt"), "w").write(rep.stdout)
print(rep.stdout[-2500:])
