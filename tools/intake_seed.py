#!/usr/bin/env python3
"""Confirm and file an independently seeded change:  python3 tools/intake_seed.py C05 [name-suffix] [--checks C05,C12]
Reads /tmp/seed-<P>/{seed_patch.diff,seed_demo.py,seed_notes.md}; applies the patch to a fresh scratch worktree of /repo HEAD;
runs (1) the repository's test suite with the patch, (2) the demonstration with and without the patch, (3) the quick tier of the
property's check(s) with VERIF_REPO pointing at the patched worktree; writes seeded/<id>/{patch.diff,demo.py,notes.md,meta.json}."""
import json, os, re, shutil, subprocess, sys, tempfile, time
HERE = os.path.dirname(os.path.dirname(os.path.abspath(__file__)))
prop = sys.argv[1]
suffix = sys.argv[2] if len(sys.argv) > 2 and not sys.argv[2].startswith("--") else "a"
checks = [prop]
if "--checks" in sys.argv:
    checks = sys.argv[sys.argv.index("--checks") + 1].split(",")
src = f"/root/verif_scratch/seeds/{prop}" if os.path.isdir(f"/root/verif_scratch/seeds/{prop}") else f"/tmp/seed-{prop}"
if "--src" in sys.argv:
    src = sys.argv[sys.argv.index("--src") + 1]
sid = f"{prop}-{suffix}"
patch = open(os.path.join(src, "seed_patch.diff")).read()
# keep only hunks touching fortls/
parts = re.split(r"(?m)^(?=diff --git )", patch)
patch = "".join(p for p in parts if p.startswith("diff --git a/fortls/"))
assert patch.strip(), "no fortls/ changes in the patch"
wt = tempfile.mkdtemp(prefix="vf-seed-"); os.rmdir(wt)
subprocess.check_call(["git", "-C", "/repo", "worktree", "add", "-q", "--detach", wt, "HEAD"])
out = {"id": sid, "property": prop, "checks_run": checks}
try:
    pf = os.path.join(wt, "_seed.diff"); open(pf, "w").write(patch)
    demo = os.path.join(wt, "_seed_demo.py"); shutil.copy(os.path.join(src, "seed_demo.py"), demo)
    env = dict(os.environ, PYTHONPATH=wt, PYTHONDONTWRITEBYTECODE="1")
    r0 = subprocess.run(["/venv/bin/python", demo], cwd=wt, env=env, capture_output=True, text=True, timeout=600)
    out["demo_without_change_rc"] = r0.returncode
    a = subprocess.run(["git", "-C", wt, "apply", "--whitespace=nowarn", pf], capture_output=True, text=True)
    if a.returncode != 0:
        print("PATCH DOES NOT APPLY", a.stderr); sys.exit(2)
    r1 = subprocess.run(["/venv/bin/python", demo], cwd=wt, env=env, capture_output=True, text=True, timeout=600)
    out["demo_with_change_rc"] = r1.returncode
    out["demo_with_change_output"] = (r1.stdout + r1.stderr)[-600:]
    ptmp = tempfile.mkdtemp(prefix="vf-seed-tmp-", dir="/root/verif_scratch")  # test_recursion_error_handling indexes $TMPDIR
    t = subprocess.run(["/venv/bin/python", "-m", "pytest", "-q", "-p", "no:cacheprovider", "-n", "8", "--deselect", "test/test_interface.py::test_version_update_pypi"],
                       cwd=wt, env=dict(env, TMPDIR=ptmp), capture_output=True, text=True, timeout=1800)
    shutil.rmtree(ptmp, ignore_errors=True)
    m = re.search(r"(\d+) passed", t.stdout); f = re.search(r"(\d+) failed", t.stdout)
    out["suite_with_change"] = {"passed": int(m.group(1)) if m else 0, "failed": int(f.group(1)) if f else 0}
    os.remove(pf); os.remove(demo)
    res = {}
    for c in checks:
        t0 = time.time()
        k = subprocess.run([HERE + "/check", c, "--tier", "quick"], cwd=HERE, env=dict(os.environ, VERIF_REPO=wt), capture_output=True, text=True)
        keys = re.findall(r"key=(\S+)", k.stdout)
        res[c] = {"rc": k.returncode, "killed": k.returncode == 1 and f"VIOLATION property={c}" in k.stdout, "keys": keys[:6], "wall_s": round(time.time() - t0)}
    out["our_checks"] = res
finally:
    subprocess.run(["git", "-C", "/repo", "worktree", "remove", "--force", wt]); shutil.rmtree(wt, ignore_errors=True)
confirmed = out["demo_without_change_rc"] == 0 and out["demo_with_change_rc"] != 0 and out["suite_with_change"]["passed"] >= 179 and out["suite_with_change"]["failed"] == 0
out["confirmed"] = confirmed
print(json.dumps(out, indent=1))
if confirmed:
    d = os.path.join(HERE, "seeded", sid); os.makedirs(d, exist_ok=True)
    open(os.path.join(d, "patch.diff"), "w").write(patch)
    shutil.copy(os.path.join(src, "seed_demo.py"), os.path.join(d, "demo.py"))
    notes = open(os.path.join(src, "seed_notes.md")).read() if os.path.exists(os.path.join(src, "seed_notes.md")) else ""
    open(os.path.join(d, "notes.md"), "w").write(notes)
    meta = {"id": sid, "property": prop, "origin": "sub-agent given only the property text and a scratch worktree", "needs_to_manifest": "see notes.md (agent's own description)",
            "what_was_run": {"demo_without_change_rc": out["demo_without_change_rc"], "demo_with_change_rc": out["demo_with_change_rc"], "suite_with_change": out["suite_with_change"],
                             "demo_cmd": "PYTHONPATH=<worktree> /venv/bin/python demo.py", "suite_cmd": "pytest -q -n 8 --deselect test/test_interface.py::test_version_update_pypi"},
            "our_checks": out["our_checks"]}
    json.dump(meta, open(os.path.join(d, "meta.json"), "w"), indent=1)
    print("filed under", d)
sys.exit(0 if confirmed else 3)
