#!/usr/bin/env python3
"""record a `fix:` commit of /repo:  python3 tools/record_fix.py <commit> <prop[,prop]> <mutant-name> "<what failed>"
adds the subject to tools/fixed_table_extra.json, regenerates the fixed: lines and writes mutants/<name>.diff (= the reverse of the fix)."""
import json, os, subprocess, sys
HERE = os.path.dirname(os.path.dirname(os.path.abspath(__file__)))
commit, props, name, what = sys.argv[1:5]
subj = subprocess.check_output(["git", "-C", "/repo", "log", "-1", "--format=%s", commit], text=True).strip()
assert subj.startswith("fix:"), subj
p = os.path.join(HERE, "tools", "fixed_table_extra.json")
d = json.load(open(p))
d[subj] = [props.split(",")[0], what]
json.dump(d, open(p, "w"), indent=1)
r = subprocess.run(["python3", os.path.join(HERE, "tools", "gen_fixed.py")], capture_output=True, text=True)
print((r.stdout.strip().splitlines() or [r.stderr[-200:]])[-1])
diff = subprocess.check_output(["git", "-C", "/repo", "diff", commit, commit + "~1", "--", "fortls"], text=True)
open(os.path.join(HERE, "mutants", name + ".diff"), "w").write(f"# property: {props}\n# reverse of {commit[:7]} ({subj})\n" + diff)
print("mutant", name)
