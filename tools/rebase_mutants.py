#!/usr/bin/env python3
"""Re-anchor mutant / seeded patches that no longer apply to /repo HEAD (context moved by later repairs): `git apply --3way` in a scratch
worktree, then the resulting diff replaces the file (comment header kept, a `# rebased onto <commit>` line added).
  python3 tools/rebase_mutants.py         -> lists what applies / was rebased / needs a hand"""
import glob, os, subprocess, tempfile, shutil
HERE = os.path.dirname(os.path.dirname(os.path.abspath(__file__)))
head = subprocess.check_output(["git", "-C", "/repo", "rev-parse", "--short", "HEAD"], text=True).strip()
wt = tempfile.mkdtemp(prefix="vf-rbm-"); os.rmdir(wt)
subprocess.check_call(["git", "-C", "/repo", "worktree", "add", "-q", "--detach", wt, "HEAD"])
try:
    for m in sorted(glob.glob(HERE + "/mutants/*.diff")) + sorted(glob.glob(HERE + "/seeded/*/patch.diff")):
        name = os.path.relpath(m, HERE)
        if subprocess.run(["git", "-C", wt, "apply", "--check", m], capture_output=True).returncode == 0:
            continue
        r = subprocess.run(["git", "-C", wt, "apply", "--3way", m], capture_output=True, text=True)
        unmerged = subprocess.run(["git", "-C", wt, "diff", "--name-only", "--diff-filter=U"], capture_output=True, text=True).stdout.strip()
        if r.returncode == 0 and not unmerged:
            new = subprocess.check_output(["git", "-C", wt, "diff", "HEAD", "--", "fortls"], text=True)
            hdr = [l for l in open(m).read().split("\n") if l.startswith("#")]
            hdr = [l for l in hdr if not l.startswith("# rebased onto")] + [f"# rebased onto {head}"]
            open(m, "w").write("\n".join(hdr) + "\n" + new if m.startswith(HERE + "/mutants") else new)
            print("REBASED ", name)
        else:
            print("NEEDS-HAND", name, (r.stderr or "")[-160:].replace("\n", " "))
        subprocess.run(["git", "-C", wt, "reset", "-q", "--hard", "HEAD"])
        subprocess.run(["git", "-C", wt, "clean", "-fdq"])
finally:
    subprocess.run(["git", "-C", "/repo", "worktree", "remove", "--force", wt]); shutil.rmtree(wt, ignore_errors=True)
