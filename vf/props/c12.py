"""C12 — completion offers exactly the accessible names matching the typed prefix.

Oracle: the same resolver as C05 (visible(scope), exports(module), TypeDef.members()).  Monitor: textDocument/completion
at every prefix of identifier occurrences in executable statements, CALL, USE / ONLY and member-access contexts.
"""
import os
import re

from vf.core import Result
from vf import harness as H
from vf import model as M
from vf.props.c05 import site_scope, use_closure, use_paths, whole_alias_names, typed_via_whole_alias

PROP = "C12"
LEVEL = "exploration"
META = {
    "engine": "model-monitor",
    "technique": "runtime monitor: completion item sets at every typed prefix of identifier occurrences compared with the program model's resolver (same ground truth as C05), per context (statement body, CALL, USE, ONLY, member chains)",
    "text": "On gfortran-validated generated workspaces, completion is requested at the end of every non-empty prefix of identifier occurrences; for statement bodies every accessible entity starting with the prefix must be offered and no inaccessible or non-matching user entity may be; after object% the labels must equal the (inherited) components and bindings; in USE only modules, after ONLY: the public members of that module, after CALL only callable entities. Intrinsic/keyword items are ignored. Sampled programs.",
    "note": "trusted: the reference resolver and gfortran as validity guard; unit names, construct-local names (ASSOCIATE/BLOCK) and intrinsic names are don't-care; judged on labels, lower-cased",
}
RULE = ("generated workspaces accepted by gfortran; sites = occurrences in contexts {ref, call, comp-ref, bind-ref, only, use-module}; every non-empty prefix "
        "(sampled to 3 per site in quick tier); evaluations = completion requests compared; distinct = (workspace, file, line, col, prefix length)")
ASSUME = ["gfortran-accepted programs", "completion looks only at the text before the cursor, so prefixes are taken on the unmodified document"]


def plan(tier):
    if tier == "quick":
        return {"ncases": 2400, "nshards": 16, "budget_s": 75, "floor": 100000, "stall_s": 60}
    return {"ncases": 30000, "nshards": 16, "budget_s": 1800, "floor": 1500000, "stall_s": 240}


def labels(r):
    items = r if isinstance(r, list) else (r or {}).get("items", []) if isinstance(r, dict) else []
    return [str(it.get("label", "")).lower() for it in items], items


def user_names(w):
    """all user entity names that are judged (unit names and construct-local names excluded)"""
    names = set()
    for s in w.scopes:
        for e in s.ents:
            if not getattr(e, "assoc", False) and not getattr(e, "block", False):
                names.add(e.name.lower())
        for p in s.procs:
            names.add(p.name.lower())
        if s.result is not None:
            names.add(s.result.name.lower())
        for u in s.uses:
            if u.only:
                for l, r in u.only:
                    names.add(l.lower())
            for l, r in getattr(u, "renames", None) or []:
                names.add(l.lower())
    return names


def rename_names(scopes_and_mods):
    out = set()
    for s in scopes_and_mods:
        for u in s.uses:
            if u.only:
                for l, r in u.only:
                    if l != r:
                        out.add(l.lower())
                        out.add(r.lower())
            for l, r in getattr(u, "renames", None) or []:
                out.add(l.lower())
                out.add(r.lower())
    return out


def callable_ent(e):
    return e.kind in ("sub", "generic")


def run_case(ctx, i, rng):
    res = Result()
    w = M.gen_workspace(rng, style=M.Style(rng) if rng.random() < 0.4 else None, tight=rng.random() < 0.2)
    if M.have_gfortran():
        ok, err = M.gfortran_check(w.files, w.order)
        if not ok:
            res.count("generator_rejects")
            return res
    ws, srv, ev = H.start(w.files, nthreads=2)
    quick = ctx.tier == "quick"
    try:
        for f in w.files:
            srv.did_open(ws.uri(f))
        unames = user_names(w)
        comp_names = {c.name.lower() for t in w.gen.all_types for c in t.comps + t.binds}
        modnames = {m.name for m in w.mods}
        for occ in w.occs:
            if occ.ctx not in ("ref", "call", "comp-ref", "bind-ref", "only"):
                continue
            if quick and rng.random() < 0.5:
                continue
            sc = site_scope(w, occ)
            if sc is None:
                continue
            nlen = len(occ.name)
            plens = list(range(1, nlen + 1))
            if quick and len(plens) > 3:
                plens = sorted(rng.sample(plens, 3))
            line_text = w.lines[occ.file][occ.line]
            for pl in plens:
                prefix = occ.name[:pl].lower()
                if re.fullmatch(r"end(module|program|subroutine|function|procedure|type|do|if|select)?", prefix) and not line_text[:occ.col].strip():
                    continue  # what has been typed so far *is* an END statement: offering nothing is right
                r = srv.request("textDocument/completion", srv.pos(ws.uri(occ.file), occ.line, occ.col + pl))
                res.count("evaluations")
                res.seen(i, occ.file, occ.line, occ.col, pl)
                wit = {"files": w.files, "site": [occ.file, occ.line, occ.col + pl, occ.name, occ.ctx], "prefix": prefix}
                if r[0] != "resp":
                    res.violation(f"completion:error:{occ.ctx}", str(r[1:4])[:200], wit)
                    break
                R, items = labels(r[2])
                Rset = set(R)
                vis = {k.lower(): v for k, v in M.visible(sc).items()}
                if occ.ctx in ("comp-ref", "bind-ref"):
                    owner = occ.ent.scope  # TypeDef that declares the member; the accessed object's type may be an extension
                    base = [o for o in w.occs if o.file == occ.file and o.line == occ.line and o.col < occ.col and o.ent.tdef is not None]
                    t = base[-1].ent.tdef if base else owner
                    mem = {k.lower(): v for k, v in t.members().items()}
                    E = {k for k in mem if k.startswith(prefix)}
                    if line_text.lstrip().lower().startswith("call") and occ.ctx == "bind-ref":
                        pass
                    res.kind("ctx:member")
                    callctx = line_text.lstrip().lower().startswith("call ")
                    if callctx:
                        must = {k for k in E if mem[k].kind == "bind"}
                        may = must | {k for k in E if mem[k].tdef is not None}
                    else:
                        must = may = E
                    if not (must <= Rset <= may):
                        vis_here = M.visible(sc)
                        if any(o.name.lower() != o.ent.name.lower() for o in base):
                            key = "use-tree:completion-of-renamed-entities"
                        elif any(vis_here.get(o.ent.tdef.name) is not o.ent.tdef for o in base):
                            key = "member:declared-type-not-visible-under-its-own-name-at-site"
                        elif any(o.name.lower() in whole_alias_names(w, sc) or typed_via_whole_alias(o.ent, whole_alias_names(w, sc)) for o in base):
                            # the object, its declared type or an ancestor type is reached through a `use m, local => remote` alias that is not
                            # visible through other modules (C05 finding of that name)
                            key = "use-tree:rename-without-only:alias-not-visible-through-other-modules"
                        elif not Rset and any(getattr(o.ent, "tname", None) and o.ent.tname.lower() != o.ent.tdef.name.lower() and o.ent.tdef.module() is not None
                                              and use_paths(o.ent.scope, o.ent.tdef.module()) >= 2 for o in base):
                            # the object is declared TYPE(alias) and that alias is one the USE tree cannot resolve (C05 finding of this name)
                            key = "use-tree:alias-of-entity-in-module-reached-by-several-use-paths"
                        else:
                            key = "completion:member:" + ("missing" if must - Rset else "extra") + (":call" if callctx else "") + (":inherited" if t.parent is not None else "")
                        res.violation(key, f"after '%' with prefix {prefix!r} at {occ.file}:{occ.line}: offered {sorted(Rset)[:8]}, members {sorted(E)}", wit)
                        break
                    continue
                if occ.ctx == "only":
                    mod = None
                    for u in sc.uses:
                        if u.only and any(l == occ.name.lower() or r_ == occ.name.lower() for l, r_ in u.only) and f"use {u.mod.name}".lower() in line_text.lower():
                            mod = u.mod
                    if mod is None:
                        continue
                    ex = {k.lower(): v for k, v in M.exports(mod).items()}
                    # public members *of that module* (own entities; re-exported ones are don't-care)
                    own = {k for k, v in ex.items() if v.module() is mod}
                    E = {k for k in own if k.startswith(prefix)}
                    res.kind("ctx:only")
                    judged = {x for x in Rset if x in unames}
                    bad = {x for x in judged if x not in ex or not x.startswith(prefix)}
                    rn = rename_names(use_closure(sc) + sc.chain())
                    if (E - Rset or bad) and ((E - Rset) | bad) <= rn:
                        res.violation("use-tree:completion-of-renamed-entities", f"ONLY list of {mod.name}, prefix {prefix!r}: not offered {sorted(E - Rset)}, wrongly offered {sorted(bad)}", wit)
                        break
                    if (E - Rset or bad) and any(v == "private" for m in use_closure(sc) for v in m.reexport_vis.values()):
                        res.violation("use-tree:private-statement-on-use-associated-name-ignored", f"ONLY list of {mod.name}, prefix {prefix!r}: not offered {sorted(E - Rset)}, wrongly offered {sorted(bad)}", wit)
                        break
                    if E - Rset or bad:
                        res.violation("completion:only:" + ("missing" if E - Rset else "extra"), f"ONLY list of {mod.name}, prefix {prefix!r}: offered {sorted(Rset)[:10]}, public members {sorted(E)}, not offered {sorted(E - Rset)}, wrongly offered {sorted(bad)}", wit)
                        break
                    continue
                # statement body / call
                callctx = occ.ctx == "call" or (line_text.lstrip().lower().startswith("call ") and
                                                occ.col == len(line_text) - len(line_text.lstrip()) + 5)
                E = {k for k, v in vis.items() if k.startswith(prefix) and v.kind in ("var", "sub", "fun", "type", "generic")}
                if callctx:
                    E = {k for k in E if callable_ent(vis[k])}
                res.kind("ctx:call" if callctx else "ctx:body")
                judged = {x for x in Rset if x in unames}
                missing = E - Rset
                type_missing = {x for x in missing if vis[x].kind == "type"}
                if type_missing and not callctx:
                    # derived type names are offered in TYPE( / CLASS( / EXTENDS( contexts only
                    res.violation("completion:body:derived-types-not-offered", f"prefix {prefix!r} at {occ.file}:{occ.line}:{occ.col + pl}: accessible derived types {sorted(type_missing)} are not offered in an executable statement", wit)
                    missing -= type_missing
                extra = {x for x in judged if x not in vis or not x.startswith(prefix)}
                if callctx:
                    extra |= {x for x in judged if x in vis and not callable_ent(vis[x]) and not (vis[x].kind == "var" and vis[x].tdef is not None)}
                if missing or extra:
                    feats = []
                    closure = use_closure(sc)
                    rn = rename_names(closure + sc.chain())
                    # entities that are the target of some rename on the closure, and the local names those renames introduce
                    ren_ents, ren_locals = set(), set()
                    for s2 in closure + sc.chain():
                        for u in s2.uses:
                            pairs = [(l, r_) for l, r_ in (u.only or []) if l != r_] + list(getattr(u, "renames", None) or [])
                            ex_ = M.exports(u.mod) if pairs else {}
                            for l, r_ in pairs:
                                ren_locals.add(l.lower())
                                if r_ in ex_:
                                    ren_ents.add(id(ex_[r_]))
                    # the recorded mechanism concerns the renamed entity itself (its alias missing, its original name hidden or offered);
                    # a *different* entity that merely carries the remote name of some rename must still be offered
                    own = all(x in ren_locals or id(vis[x]) in ren_ents for x in missing)
                    if (missing | extra) <= rn and own:
                        key = "use-tree:completion-of-renamed-entities"
                    elif any(v == "private" for m in closure for v in m.reexport_vis.values()):
                        key = "use-tree:private-statement-on-use-associated-name-ignored"
                    else:
                        aliases = {l.lower() for s2 in sc.chain() for u in s2.uses if u.only for l, r_ in u.only if l != r_}
                        for m in closure:
                            for u in m.uses:
                                if u.only:
                                    aliases |= {l.lower() for l, r_ in u.only if l != r_}
                        remote = {r_.lower() for s2 in sc.chain() for u in s2.uses if u.only for l, r_ in u.only if l != r_}
                        if missing and missing <= aliases:
                            key = "completion:missing-alias"
                        elif extra and not missing and extra <= remote:
                            key = "completion:remote-name-of-renamed-entity-offered"
                        else:
                            kinds = sorted({vis[x].kind for x in missing}) if missing else []
                            key = "completion:" + ("call:" if callctx else "body:") + ("missing:" + "+".join(kinds) if missing else "extra-inaccessible")
                    res.violation(key, f"prefix {prefix!r} at {occ.file}:{occ.line}:{occ.col + pl} ({occ.ctx}): not offered {sorted(missing)}, wrongly offered {sorted(extra)}", wit)
                    break
        # USE statement: only modules
        for f in w.files:
            for ln, text in enumerate(w.lines[f]):
                st = text.lstrip().lower()
                if st.startswith("use ") and "," not in st:
                    col = text.lower().index("use ") + 4
                    r = srv.request("textDocument/completion", srv.pos(ws.uri(f), ln, col + 1))
                    res.count("evaluations")
                    res.kind("ctx:use")
                    if r[0] == "resp":
                        R, items = labels(r[2])
                        pre = text[col:col + 1].lower()
                        want = {m for m in modnames if m.startswith(pre)}
                        bad = [x for x in R if x in unames and x not in modnames]
                        if want - set(R) or bad:
                            res.violation("completion:use:" + ("missing-module" if want - set(R) else "non-module-offered"), f"USE with prefix {pre!r}: offered {sorted(set(R))[:10]}; modules {sorted(want)}", {"files": w.files, "site": [f, ln, col + 1, "", "use"]})
        if i % 150 == 3:
            res.sample({"file": w.order[-1], "text": w.files[w.order[-1]][:400]}, limit=1)
    finally:
        ws.close()
    return res
