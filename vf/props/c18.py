"""C18 — exactly the configured source files are indexed at start-up.

Oracle: a literal transcription of the property statement (glob.glob for pattern expansion, the product uses pathlib).
Monitors: the hooked server state set(server.workspace) after initialize, and, at the protocol level, the URIs carrying the
unique module of each file in `workspace/symbol ""`.
"""
import glob
import json
import os
import re

from vf.core import Result
from vf import harness as H

PROP = "C18"
LEVEL = "exploration"
META = {
    "engine": "model-monitor",
    "technique": "runtime monitor: reference discovery model (literal transcription of the statement, glob.glob based) compared with the server's workspace set and with workspace/symbol URIs after initialize over random trees x settings x channels",
    "text": "Random directory trees (nested, empty directories, directories named like sources, every default suffix in mixed case, look-alike suffixes, dot-files) are combined with random source_dirs / excl_paths (literal and glob) / incl_suffixes / excl_suffixes given by command line or configuration file; after initialize the indexed set observed in the server and through workspace/symbol must equal the set computed by a 40-line transcription of the property. Sampled space. Patterns with a trailing separator (relative and absolute), file stems equal to directory names and roots handed over through a symbolic link are included.",
    "note": "trusted: the reference model and Python's glob module; symlink-free trees; every file holds one uniquely named module so the protocol-level observation identifies files",
}
RULE = ("(tree, settings, channel) triples: trees of depth <=3 over 9 directory names and 24 file-name suffix variants; settings = source_dirs absent/"
        "literal/glob, 0-3 excl_paths (directory, file, **/x, x/**, */x, **/*.EXT), 0-2 incl_suffixes, 0-2 excl_suffixes; channel = command line or "
        ".fortlsrc; evaluations = initializations compared; distinct = (tree shape, settings, channel) fingerprints")
ASSUME = ["no symbolic links, paths are UTF-8", "glob patterns use *, ** and literal names only", "each source file contains one module with a unique name"]

DEFAULT_SUFFIXES = [".f", ".f77", ".f90", ".f95", ".f03", ".f05", ".f08", ".f18", ".for", ".fpp"]
SUFFIX_POOL = [".f90", ".F90", ".f", ".F", ".fOr", ".FOR", ".Fpp", ".fpp", ".F05", ".f18", ".f03", ".F77", ".f95", ".f08",
               ".f9", ".f90.bak", ".f900", ".fo", ".F9O", "f90", ".f90~", ".txt", ".inc", ".fypp", ".h", ".F90x", ".ff90", ".f 90"]
DIRS = ["src", "lib", "a", "b", "skip", "x.f90", "Sub Dir", "deep", "é"]


def plan(tier):
    if tier == "quick":
        return {"ncases": 1600, "nshards": 16, "budget_s": 70, "floor": 600, "stall_s": 60}
    return {"ncases": 80000, "nshards": 16, "budget_s": 1500, "floor": 30000, "stall_s": 240}


def gen_tree(rng):
    """-> (dirs, files) relative paths"""
    dirs = {""}
    for _ in range(rng.randint(1, 7)):
        base = rng.choice(sorted(dirs))
        if base.count("/") >= 2:
            continue
        d = (base + "/" if base else "") + rng.choice(DIRS)
        dirs.add(d)
    files = {}
    n = 0
    for d in sorted(dirs):
        if rng.random() < 0.2:
            continue  # empty directory
        for _ in range(rng.randint(1, 4)):
            n += 1
            stem = rng.choice(["m", "file", "x", "", "src_", "lib", "skip", "a", "b"]) + (str(n) if rng.random() < 0.9 else "")  # some stems are also directory names
            name = stem + rng.choice(SUFFIX_POOL)
            if not name or name in (".", ".."):
                continue
            p = (d + "/" if d else "") + name
            if p in dirs or any(p == dd or dd.startswith(p + "/") for dd in dirs):
                continue
            files[p] = f"module mod_u{n}\n  integer :: v{n}\nend module mod_u{n}\n"
    return dirs, files


def gen_settings(rng, dirs, files):
    s = {}
    dl = sorted(d for d in dirs if d)
    r = rng.random()
    if r < 0.45:
        pass  # source_dirs absent
    elif r < 0.7 and dl:
        s["source_dirs"] = rng.sample(dl, rng.randint(1, min(3, len(dl)))) + (["nonexistent"] if rng.random() < 0.2 else [])
    else:
        pats = ["*", "**", "src/**", "a/*", "*/b", "**/src", "lib", "s*", "**/d*", "*/*", "./**", "**/", ".", "./", "src/.", "./src", "src/../lib"]
        s["source_dirs"] = rng.sample(pats, rng.randint(1, 2))
    ex = []
    for _ in range(rng.choice([0, 0, 1, 1, 2, 3])):
        q = rng.random()
        if q < 0.3 and dl:
            ex.append(rng.choice(dl))
        elif q < 0.5 and files:
            ex.append(rng.choice(sorted(files)))
        else:
            ex.append(rng.choice(["**/skip", "skip/**", "*/b", "**/*.F90", "**/*.f90", "src/*", "**/b/**", "a", "*.f", "**/x.f90", "lib/**/*", "nonexistent/**", "./src", "src/", "s*/", "*/", "**/s*/", "l*/", "@ABS@/s*/", "@ABS@/*/", "@ABS@/src", "@ABS@/**/b/"]))
    if ex:
        s["excl_paths"] = ex
    if rng.random() < 0.35:
        s["incl_suffixes"] = rng.sample([".inc", ".fypp", ".h", ".txt", ".F90x", ".f9"], rng.randint(1, 2))
    if rng.random() < 0.35:
        s["excl_suffixes"] = rng.sample([".F90", ".f", "_skip.f90", ".FOR", "1.f90", ".fpp", "90"], rng.randint(1, 2))
    return s


def expand(root, pattern):
    """glob expansion relative to the root, as real absolute paths"""
    pat = pattern if os.path.isabs(pattern) else os.path.join(root, pattern)
    return {os.path.realpath(p) for p in glob.glob(pat, recursive=True, include_hidden=True)}


def suffix_ok(name, incl):
    low = name.lower()
    if any(low.endswith(sfx) for sfx in DEFAULT_SUFFIXES):
        return True
    return any(name.endswith(sfx) for sfx in incl)


def reference(root, settings):
    """the property statement, literally"""
    incl = settings.get("incl_suffixes", [])
    excl_sfx = settings.get("excl_suffixes", [])
    excluded = set()
    for pat in settings.get("excl_paths", []):
        excluded |= expand(root, pat)
    if "source_dirs" not in settings:
        # every directory under the root that contains such a file
        src = set()
        for dp, dn, fn in os.walk(root):
            if any(suffix_ok(f, incl) for f in fn):
                src.add(os.path.realpath(dp))
    else:
        src = set()
        for pat in settings["source_dirs"]:
            src |= {p for p in expand(root, pat) if os.path.isdir(p)}
    src -= excluded
    out = set()
    for d in src:
        for f in os.listdir(d):
            p = os.path.join(d, f)
            if not os.path.isfile(p):
                continue
            if not suffix_ok(f, incl):
                continue
            if p in excluded:
                continue
            if any(f.endswith(sfx) for sfx in excl_sfx):
                continue
            out.add(p)
    return out


def cli_args(settings):
    a = []
    for k in ("source_dirs", "excl_paths", "incl_suffixes", "excl_suffixes"):
        if k in settings:
            a += ["--" + k] + list(settings[k])
    return a


def classify(settings, channel, missing, extra, root):
    feats = []
    feats.append("channel=" + channel)
    feats.append("source_dirs=" + ("absent" if "source_dirs" not in settings else ("glob" if any("*" in p for p in settings["source_dirs"]) else "literal")))
    if "excl_paths" in settings:
        feats.append("excl=" + ("glob" if any("*" in p for p in settings["excl_paths"]) else "literal"))
    if "incl_suffixes" in settings:
        feats.append("incl_suffixes")
    if "excl_suffixes" in settings:
        feats.append("excl_suffixes")
    kind = ("missing" if missing else "") + ("+" if missing and extra else "") + ("extra" if extra else "")
    return f"discovery:{kind}:" + ",".join(feats)


def run_case(ctx, i, rng):
    res = Result()
    for sub in range(3):
        dirs, files = gen_tree(rng)
        settings = gen_settings(rng, dirs, files)
        channel = rng.choice(["cli", "file"])
        with H.Workspace({}) as ws:
            for d in dirs:
                os.makedirs(ws.path(d) if d else ws.root, exist_ok=True)
            for f, t in files.items():
                ws.write(f, t)
            settings = json.loads(json.dumps(settings).replace("@ABS@", ws.root))
            want = reference(ws.root, settings)
            # the root may be handed over through a symbolic link (rootPath is a plain path, not a URI)
            init_root = ws.root
            if rng.random() < 0.12:
                init_root = ws.root + "_link"
                os.symlink(ws.root, init_root)
                res.kind("root:via-symlink")
            args = []
            if channel == "cli":
                args = cli_args(settings)
            else:
                ws.write(".fortlsrc", json.dumps(settings))
            witness = {"dirs": sorted(dirs), "files": sorted(files), "settings": settings, "channel": channel}
            ctx.mark(witness)
            srv = H.Server(args, nthreads=2)
            ev = srv.initialize(init_root)
            if init_root != ws.root:
                os.unlink(init_root)
            res.count("evaluations")
            res.kind("channel:" + channel)
            res.kind("source_dirs:" + ("absent" if "source_dirs" not in settings else "given"))
            res.seen(json.dumps(witness, sort_keys=True))
            if ev[0] != "resp":
                res.violation(f"initialize-failed:{channel}:" + str(ev[3])[:40], f"initialize answered {ev[1:4]!r}", witness)
                continue
            for e in srv.conn.out:
                if e[0] == "notif" and e[1] == "window/showMessage" and e[2].get("type") == 1:
                    res.violation("initialize-error-message", str(e[2].get("message"))[:200], witness)
            got = set(srv.ls.workspace)
            rel = lambda s: sorted(os.path.relpath(p, ws.root) for p in s)  # noqa
            if got != want:
                missing, extra = want - got, got - want
                res.violation(classify(settings, channel, missing, extra, ws.root),
                              f"indexed set differs from the statement: missing {rel(missing)} extra {rel(extra)}", dict(witness, missing=rel(missing), extra=rel(extra)))
                continue
            # protocol level: the unique module of every expected file, and of no other file, is found by workspace/symbol
            r = srv.request("workspace/symbol", {"query": "mod_u"})
            if r[0] == "resp":
                seen = {H.path_from_uri(s["location"]["uri"]) for s in r[2] if s["name"].lower().startswith("mod_u")}
                res.count("protocol_level_comparisons")
                if seen != want:
                    res.violation("discovery:protocol-level-differs", f"workspace/symbol reports modules from {rel(seen)} but the statement gives {rel(want)}", witness)
            if i % 100 == 0 and sub == 0:
                res.sample({"tree": sorted(files)[:8], "settings": settings, "channel": channel, "indexed": rel(want)[:8]}, limit=1)
    return res


def replay(ctx, w):
    res = Result()
    with H.Workspace({}) as ws:
        for d in w["dirs"]:
            os.makedirs(ws.path(d) if d else ws.root, exist_ok=True)
        for n, f in enumerate(w["files"]):
            ws.write(f, f"module mod_r{n}\nend module mod_r{n}\n")
        args = cli_args(w["settings"]) if w["channel"] == "cli" else []
        if w["channel"] == "file":
            ws.write(".fortlsrc", json.dumps(w["settings"]))
        want = reference(ws.root, w["settings"])
        srv = H.Server(args, nthreads=1)
        ev = srv.initialize(ws.root)
        got = set(srv.ls.workspace)
        if ev[0] != "resp" or got != want:
            res.violation("replayed", f"initialize {ev[0]}; missing {sorted(want - got)} extra {sorted(got - want)}", w)
    return res
