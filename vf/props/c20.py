"""C20 — cyclic and self-referential program structure never causes unbounded recursion.

Workload: a catalogue of cycle shapes x cycle length 1..4 x placement (one file / one file per unit), indexed by the
pooled start-up path and by the incremental path, then *every* position-based request at every identifier and
diagnostics for every file.  Monitors: error responses, RecursionError RAISE monitor (sees swallowed ones), result
shapes, CPU budget, watchdog.
"""
import re
import time

from vf.core import Result
from vf import harness as H
from vf import monitors as M
from vf.props.c09 import METHODS, params_for, exc_key, IDENT

PROP = "C20"
LEVEL = "exploration"
META = {
    "engine": "crash-time-monitor",
    "technique": "runtime monitor: RecursionError RAISE monitor (sys.monitoring), error-response/shape monitors and CPU clock while issuing every positional request at every identifier of a cycle catalogue",
    "text": "A catalogue of cyclic/self-referential structures (USE, EXTENDS, submodule ancestry, pointer/ASSOCIATE links, type-bound and procedure-pointer links, INCLUDE/#include, rename rings, self-typed components, parameter self-reference) is generated for cycle lengths 1..4 in single- and multi-file placement, embedded in random surrounding code in the thorough tier; every positional method is issued at every identifier, diagnostics are requested for every file, via pooled and incremental indexing. Monitors see swallowed RecursionErrors too. The catalogue x lengths x placements is enumerated completely in both tiers; surrounding code is sampled.",
    "note": "trusted: the monitors; the catalogue is finite and hand-written (shapes outside it are not covered); CPU budget 3 s per request batch of one identifier",
}
RULE = ("catalogue entry x cycle length 1..4 x placement {one file, file per unit} x route {pooled initialize, incremental didOpen in both orders} "
        "(+ random filler declarations/statements and renamed identifiers in thorough tier); for each workspace every identifier occurrence x 9 "
        "positional methods + diagnostics of every file; evaluations = requests issued; distinct = (entry, length, placement, route, file, line, col, method)")
ASSUME = ["the catalogue lists the cycle shapes named by the property; other shapes are not explored",
          "a RecursionError raised and swallowed inside fortls counts as a recursion-limit failure"]


def plan(tier):
    n = len(catalogue_index())
    if tier == "quick":
        return {"ncases": len(quick_index()), "nshards": 16, "budget_s": 75, "floor": 20000, "stall_s": 30}
    return {"ncases": n * 40, "nshards": 16, "budget_s": 1500, "floor": 100000, "stall_s": 120}


# ------------------------------------------------------------------------------------------------
# catalogue: each entry is f(k) -> list of (unit_name, ext, text); units are concatenated or split


def use_ring(k, only=False):
    units = []
    for i in range(k):
        j = (i + 1) % k
        use = f"  use cm{j}" + (f", only: v{j}, s{j}" if only else "")
        units.append((f"cm{i}", ".f90", f"module cm{i}\n{use}\n  implicit none\n  integer :: v{i}\ncontains\n  subroutine s{i}(a)\n    integer :: a\n    a = v{i} + v{j}\n    call s{j}(a)\n  end subroutine s{i}\nend module cm{i}\n"))
    units.append(("cmain", ".f90", "program cmain\n  use cm0\n  integer :: q\n  q = v0\n  call s0(q)\nend program cmain\n"))
    return units


def rename_ring(k):
    units = []
    for i in range(k):
        j = (i + 1) % k
        units.append((f"rm{i}", ".f90", f"module rm{i}\n  use rm{j}, only: a{i} => a{j}, b{i} => b{j}\n  implicit none\ncontains\n  subroutine rs{i}()\n    a{i} = b{i}\n  end subroutine rs{i}\nend module rm{i}\n"))
    units.append(("rmain", ".f90", "program rmain\n  use rm0, only: z => a0\n  z = 1\nend program rmain\n"))
    return units


def extends_ring(k, override=True, cross=False):
    body = []
    for i in range(k):
        j = (i + 1) % k
        b = f"  type, extends(et{j}) :: et{i}\n    integer :: c{i}\n  contains\n    procedure :: p => impl{i}\n    procedure :: q{i} => impl{i}\n  end type et{i}\n" if override else \
            f"  type, extends(et{j}) :: et{i}\n    integer :: c{i}\n  end type et{i}\n"
        body.append(b)
    impls = "".join(f"  subroutine impl{i}(self)\n    class(et{i}) :: self\n    self%c{i} = 1\n    call self%p()\n  end subroutine impl{i}\n" for i in range(k))
    if not cross:
        text = "module emod\n  implicit none\n" + "".join(body) + "contains\n" + impls + "end module emod\n"
        units = [("emod", ".f90", text)]
    else:
        units = []
        for i in range(k):
            j = (i + 1) % k
            units.append((f"emod{i}", ".f90", f"module emod{i}\n  use emod{j}\n  implicit none\n{body[i]}contains\n" +
                          f"  subroutine impl{i}(self)\n    class(et{i}) :: self\n    self%c{i} = 1\n    call self%p()\n  end subroutine impl{i}\nend module emod{i}\n"))
    um = "emod" if not cross else "emod0"
    units.append(("eprog", ".f90", f"program eprog\n  use {um}\n  type(et0) :: obj\n  class(et{k-1}), allocatable :: o2\n  obj%c0 = 2\n  call obj%p()\n  call o2%p()\n  obj%c{k-1} = 3\nend program eprog\n"))
    return units


def submodule_ring(k, with_parent=True):
    units = []
    if with_parent:
        units.append(("smod", ".f90", "module smod\n  implicit none\n  interface\n    module subroutine ssub(a)\n      integer :: a\n    end subroutine ssub\n  end interface\n  integer :: sv\nend module smod\n"))
    for i in range(k):
        j = (i + 1) % k
        par = f"smod:sub{j}" if with_parent else f"sub{j}"
        units.append((f"sub{i}", ".f90", f"submodule ({par}) sub{i}\n  implicit none\n  integer :: w{i}\ncontains\n  module subroutine ssub(a)\n    integer :: a\n    a = w{i} + sv\n  end subroutine ssub\n  subroutine loc{i}()\n    w{i} = w{j}\n  end subroutine loc{i}\nend submodule sub{i}\n"))
    return units


def pointer_ring(k, kind="integer"):
    decl = "".join(f"  {kind}, pointer :: pa{i} => pa{(i + 1) % k}\n" for i in range(k))
    uses = "".join(f"  pa{i} = pa{(i + 1) % k}\n" for i in range(k))
    return [("pprog", ".f90", f"program pprog\n  implicit none\n{decl}{uses}  print *, pa0\nend program pprog\n")]


def pointer_ring_mod(k):
    units = []
    for i in range(k):
        j = (i + 1) % k
        units.append((f"pm{i}", ".f90", f"module pm{i}\n  use pm{j}\n  real, pointer :: pr{i} => pr{j}\nend module pm{i}\n"))
    units.append(("pmm", ".f90", "subroutine pmm()\n  use pm0\n  pr0 = 1.0\nend subroutine pmm\n"))
    return units


def associate_ring(k, nested=False):
    if not nested:
        pairs = ", ".join(f"ax{i} => ax{(i + 1) % k}" for i in range(k))
        body = "".join(f"    ax{i} = ax{(i + 1) % k} + 1\n" for i in range(k))
        return [("aprog", ".f90", f"program aprog\n  implicit none\n  integer :: outer\n  associate ({pairs})\n{body}    outer = ax0\n  end associate\nend program aprog\n")]
    text = "subroutine asub()\n  implicit none\n  real :: base\n"
    for i in range(k):
        text += "  " * (i + 1) + f"associate (ay{i} => ay{(i + 1) % k})\n"
    text += "  " * (k + 1) + "base = ay0\n"
    for i in range(k, 0, -1):
        text += "  " * i + "end associate\n"
    text += "end subroutine asub\n"
    return [("asub", ".f90", text)]


def select_type_self(k):
    return [("stm", ".f90", "module stm\n  type :: tt\n    class(tt), pointer :: nx => null()\n  end type tt\ncontains\n  subroutine sts(x)\n    class(tt) :: x\n" +
             "".join("  " * i + f"    select type (x => x%nx)\n" + "  " * i + "    type is (tt)\n" for i in range(k)) + "      x%nx => x\n" +
             "".join("  " * i + "    end select\n" for i in range(k - 1, -1, -1)) + "  end subroutine sts\nend module stm\n")]


def binding_ring(k):
    binds = "".join(f"    procedure :: bp{i} => bp{(i + 1) % k}\n" for i in range(k))
    calls = "".join(f"    call self%bp{i}()\n" for i in range(k))
    return [("bmod", ".f90", f"module bmod\n  implicit none\n  type :: bt\n    integer :: n\n  contains\n{binds}    generic :: g => bp0\n  end type bt\ncontains\n  subroutine user(self)\n    class(bt) :: self\n{calls}    call self%g()\n  end subroutine user\nend module bmod\n")]


def procptr_ring(k):
    decl = "".join(f"  procedure(pf{(i + 1) % k}), pointer :: pf{i} => pf{(i + 1) % k}\n" for i in range(k))
    uses = "".join(f"  call pf{i}()\n  pf{i} => pf{(i + 1) % k}\n" for i in range(k))
    comp = "".join(f"    procedure(pf{(i + 1) % k}), pointer, nopass :: cf{i} => cf{(i + 1) % k}\n" for i in range(k))
    return [("fprog", ".f90", f"module fmod\n  implicit none\n  type :: ft\n{comp}  end type ft\n{decl}contains\n  subroutine fuser(o)\n    type(ft) :: o\n{uses}    call o%cf0()\n  end subroutine fuser\nend module fmod\n")]


def include_ring(k, pre=False):
    units = []
    for i in range(k):
        j = (i + 1) % k
        if pre:
            units.append((f"hi{i}", ".h", f"#include \"hi{j}.h\"\n#define HM{i} {i}\n"))
        else:
            units.append((f"fi{i}", ".inc", f"      integer :: iv{i}\n      include 'fi{j}.inc'\n"))
    if pre:
        units.append(("hmain", ".F90", "#include \"hi0.h\"\nprogram hmain\n  integer :: hx\n  hx = HM0\n#ifdef HM0\n  hx = 2\n#endif\nend program hmain\n"))
    else:
        units.append(("imain", ".f90", "program imain\n  implicit none\n  include 'fi0.inc'\n  iv0 = 1\nend program imain\n"))
        units.append(("imod", ".f90", "module imod\n  include 'fi0.inc'\ncontains\n  subroutine isub()\n    include 'fi0.inc'\n    iv0 = 2\n  end subroutine isub\nend module imod\n"))
    return units


def source_include_ring(k):
    """source files (indexed on their own) that INCLUDE the next one outside any scope; k = 1 includes itself"""
    units = []
    for i in range(k):
        j = (i + 1) % k
        units.append((f"srcinc{i}", ".f90", f"integer :: sv{i}\ninclude 'srcinc{j}.f90'\n" + (f"include 'srcinc{j}.f90'\n" if i == 0 else "")))
    units.append(("srcincuser", ".f90", "program srcincuser\n  implicit none\n  include 'srcinc0.f90'\n  sv0 = 1\nend program srcincuser\n"))
    return units


def self_include(k):
    return [("selfinc", ".f90", "module selfinc\n  integer :: si\n" + "  include 'selfinc.f90'\n" * k + "end module selfinc\n"),
            ("selfpp", ".F90", "#include \"selfpp.F90\"\n" * k + "subroutine spp()\n  integer :: sj\n  sj = 1\nend subroutine spp\n")]


def self_typed(k):
    comps = "".join(f"    type(lt{(i + 1) % k}), pointer :: nx{i} => null()\n" for i in range(1))
    types = "".join(f"  type :: lt{i}\n    type(lt{(i + 1) % k}), pointer :: nx => null()\n    integer :: val{i}\n  end type lt{i}\n" for i in range(k))
    chain = "%".join(["nx"] * 6)
    return [("lmod", ".f90", f"module lmod\n  implicit none\n{types}contains\n  subroutine walk(h)\n    type(lt0) :: h\n    h%{chain}%val0 = 1\n    h%nx%nx => h%{chain}\n  end subroutine walk\nend module lmod\n")]


def param_self(k):
    decl = "".join(f"  integer, parameter :: pn{i} = pn{(i + 1) % k} + 1\n" for i in range(k))
    dims = "".join(f"  real :: da{i}(size(da{(i + 1) % k}))\n  integer(kind=kk{i}) :: kk{(i + 1) % k}\n" for i in range(k))
    return [("kprog", ".f90", f"program kprog\n  implicit none\n{decl}{dims}  print *, pn0, da0, kk0\nend program kprog\n")]


def generic_self(k):
    ifs = "".join(f"  interface gi{i}\n    module procedure gi{(i + 1) % k}\n    procedure :: gi{i}\n  end interface gi{i}\n" for i in range(k))
    return [("gmod", ".f90", f"module gmod\n  implicit none\n{ifs}contains\n  subroutine guse()\n    call gi0()\n  end subroutine guse\nend module gmod\n")]


def func_result_self(k):
    fs = "".join(f"  function fr{i}(fr{(i + 1) % k}) result(fr{i})\n    integer :: fr{i}, fr{(i + 1) % k}\n    fr{i} = fr{(i + 1) % k}(1)\n  end function fr{i}\n" for i in range(k))
    return [("rmod", ".f90", f"module rmod\ncontains\n{fs}end module rmod\n")]


def abstract_deferred_ring(k):
    types = ""
    for i in range(k):
        j = (i + 1) % k
        types += f"  type, abstract, extends(at{j}) :: at{i}\n  contains\n    procedure(ai{j}), deferred :: d{i}\n    procedure :: d{j} => ad{i}\n  end type at{i}\n"
    ifs = "  abstract interface\n" + "".join(f"    subroutine ai{i}(s)\n      import at{i}\n      class(at{i}) :: s\n    end subroutine ai{i}\n" for i in range(k)) + "  end interface\n"
    impl = "".join(f"  subroutine ad{i}(s)\n    class(at{i}) :: s\n    call s%d{i}()\n  end subroutine ad{i}\n" for i in range(k))
    return [("amod", ".f90", f"module amod\n  implicit none\n{types}{ifs}contains\n{impl}end module amod\n")]


def use_complete(k):
    """every module uses every other one (and itself for k=1)"""
    units = []
    for i in range(k):
        uses = "".join(f"  use dm{j}\n" for j in range(k) if j != i or k == 1)
        units.append((f"dm{i}", ".f90", f"module dm{i}\n{uses}  implicit none\n  integer :: dv{i}\ncontains\n  subroutine ds{i}()\n    dv{i} = dv{(i + 1) % k}\n  end subroutine ds{i}\nend module dm{i}\n"))
    units.append(("dmain", ".f90", "program dmain\n  use dm0\n  dv0 = 1\n  call ds0()\nend program dmain\n"))
    return units


def submodule_rho(k):
    units = [("smod", ".f90", "module smod\n  implicit none\n  interface\n    module subroutine ssub(a)\n      integer :: a\n    end subroutine ssub\n  end interface\n  integer :: sv\nend module smod\n")]
    for i in range(k + 1):
        j = i + 1 if i < k else 1
        units.append((f"sub{i}", ".f90", f"submodule (sub{j}) sub{i}\n  implicit none\n  integer :: w{i}\ncontains\n  module subroutine ssub(a)\n    integer :: a\n    a = w{i} + sv\n  end subroutine ssub\n  subroutine loc{i}()\n    w{i} = w{j}\n  end subroutine loc{i}\nend submodule sub{i}\n"))
    return units


def extends_rho(k):
    body = ""
    for i in range(k + 1):
        j = i + 1 if i < k else 1
        body += f"  type, extends(xt{j}) :: xt{i}\n    integer :: c{i}\n  contains\n    procedure :: p => ximpl{i}\n  end type xt{i}\n"
    impls = "".join(f"  subroutine ximpl{i}(self)\n    class(xt{i}) :: self\n    self%c{i} = 1\n    call self%p()\n  end subroutine ximpl{i}\n" for i in range(k + 1))
    return [("xmod", ".f90", "module xmod\n  implicit none\n" + body + "contains\n" + impls + "end module xmod\n"),
            ("xprog", ".f90", f"program xprog\n  use xmod\n  type(xt0) :: obj\n  obj%c0 = 2\n  obj%c{k} = 1\n  call obj%p()\nend program xprog\n")]


def pointer_rho(k):
    decl = "".join(f"  integer, pointer :: qa{i} => qa{i + 1 if i < k else 1}\n" for i in range(k + 1))
    assoc = ", ".join(f"qx{i} => qx{i + 1 if i < k else 1}" for i in range(k + 1))
    binds = "".join(f"    procedure :: qb{i} => qb{i + 1 if i < k else 1}\n" for i in range(k + 1))
    return [("qprog", ".f90", f"module qmod\n  type :: qt\n  contains\n{binds}  end type qt\nend module qmod\nprogram qprog\n  use qmod\n  implicit none\n{decl}  type(qt) :: qo\n  qa0 = qa1\n  call qo%qb0()\n  associate ({assoc})\n    qa0 = qx0\n  end associate\nend program qprog\n")]


CATALOGUE = [
    ("use-ring", lambda k: use_ring(k)),
    ("use-only-ring", lambda k: use_ring(k, only=True)),
    ("use-rename-ring", rename_ring),
    ("use-complete-graph", use_complete),
    ("submodule-rho", submodule_rho),
    ("extends-rho", extends_rho),
    ("link-rho", pointer_rho),
    ("extends-ring", lambda k: extends_ring(k, override=False)),
    ("extends-ring-override", lambda k: extends_ring(k, override=True)),
    ("extends-ring-cross-module", lambda k: extends_ring(k, override=True, cross=True)),
    ("abstract-deferred-ring", abstract_deferred_ring),
    ("submodule-ring", lambda k: submodule_ring(k, True)),
    ("submodule-ring-noparent", lambda k: submodule_ring(k, False)),
    ("pointer-ring", lambda k: pointer_ring(k)),
    ("pointer-ring-typed", lambda k: pointer_ring(k, "type(undefined_t)")),
    ("pointer-ring-modules", pointer_ring_mod),
    ("associate-ring", lambda k: associate_ring(k)),
    ("associate-nested-ring", lambda k: associate_ring(k, nested=True)),
    ("select-type-self", select_type_self),
    ("binding-ring", binding_ring),
    ("procedure-pointer-ring", procptr_ring),
    ("include-ring", lambda k: include_ring(k)),
    ("pp-include-ring", lambda k: include_ring(k, pre=True)),
    ("self-include", self_include),
    ("source-include-ring-toplevel", source_include_ring),
    ("self-typed-components", self_typed),
    ("parameter-self-reference", param_self),
    ("generic-interface-self", generic_self),
    ("function-result-self", func_result_self),
]


def catalogue_index():
    """(entry, k, placement, route) — complete enumeration"""
    out = []
    for n, (name, _) in enumerate(CATALOGUE):
        for k in (1, 2, 3, 4):
            for placement in ("split", "joined"):
                for route in ("pooled", "incremental", "incremental-reversed"):
                    out.append((n, k, placement, route))
    return out


def quick_index():
    """quick tier: every entry x every k; placements/routes complete for k<=2, two combinations for k>=3"""
    return catalogue_index()


FILLER_DECL = ["  integer :: fill_a\n", "  real, allocatable :: fill_b(:)\n", "  character(len=3) :: fill_c\n"]


def build(entry, k, placement, rng=None):
    name, fn = CATALOGUE[entry]
    units = fn(k)
    files = {}
    if placement == "split":
        for un, ext, text in units:
            files[un + ext] = text
    else:
        # include files must stay separate; program units are joined into one file per extension
        buf = {}
        for un, ext, text in units:
            if ext in (".inc", ".h") or name in ("self-include", "source-include-ring-toplevel"):
                files[un + ext] = text
            else:
                buf.setdefault(ext, []).append(text)
        for ext, texts in buf.items():
            if rng is not None:
                rng.shuffle(texts)
            files["joined" + ext] = "\n".join(texts)
    if rng is not None:
        # thorough tier: perturb with filler and case changes (structure of the cycle unchanged)
        for f in list(files):
            t = files[f]
            if f.endswith((".f90", ".F90")) and rng.random() < 0.7:
                ls = t.split("\n")
                for _ in range(rng.randint(1, 4)):
                    pos = [n for n, l in enumerate(ls) if re.match(r"\s*(implicit none)", l)]
                    if pos:
                        ls.insert(rng.choice(pos) + 1, rng.choice(FILLER_DECL).rstrip("\n"))
                t = "\n".join(ls)
            if rng.random() < 0.3 and not f.endswith((".F90", ".h")):
                t = t.upper() if rng.random() < 0.5 else t
                if "INCLUDE '" in t:
                    t = re.sub(r"INCLUDE '([^']*)'", lambda m: "INCLUDE '" + m.group(1).lower() + "'", t)
            files[f] = t
    return name, files


def run_case(ctx, i, rng):
    res = Result()
    idx = quick_index() if ctx.tier == "quick" else catalogue_index()
    entry, k, placement, route = idx[i % len(idx)]
    perturb = rng if i >= len(idx) else None
    name, files = build(entry, k, placement, perturb)
    recmon = M.recursion_monitor()
    tag = f"{name}/k={k}/{placement}/{route}"
    w = {"entry": name, "k": k, "placement": placement, "route": route, "files": files}
    ctx.mark(w)
    res.kind("entry:" + name)
    res.kind("route:" + route)
    src = [f for f in files if f.lower().endswith((".f90",))]
    t0 = time.process_time()
    if route == "pooled":
        ws = H.Workspace(files)
        srv = H.Server(["--incremental_sync", "--enable_code_actions"], nthreads=2)
        ev = srv.initialize(ws.root)
        if ev[0] != "resp":
            res.violation(f"cycle={name}:initialize:{exc_key(ev) if ev[0] == 'err' else 'none'}", f"initialize failed: {ev[1:4]!r}", w)
        for e in srv.conn.out:
            if e[0] == "notif" and e[1] == "window/showMessage" and "failed" in str(e[2].get("message")):
                res.violation(f"cycle={name}:initialize:file-refused", str(e[2].get("message"))[:300], w)
    else:
        ws = H.Workspace({})
        srv = H.Server(["--incremental_sync", "--enable_code_actions"], nthreads=1)
        srv.initialize(ws.root)
        order = sorted(files)
        if route.endswith("reversed"):
            order.reverse()
        for f in order:
            ws.write(f, files[f])
        for f in order:
            if f in src:
                for e in srv.did_open(ws.uri(f)):
                    check_event(res, e, name, "didOpen", w)
    nrec, where = recmon.take()
    if nrec:
        res.violation(f"cycle={name}:indexing:RecursionError@{where}", f"{nrec} RecursionError(s) raised inside fortls while indexing {tag}", w)
    try:
        for f in src:
            uri = ws.uri(f)
            if route == "pooled":
                for e in srv.did_open(uri):
                    check_event(res, e, name, "didOpen", w)
            lines = srv.lines_of(ws.path(f)) or []
            for ln, text in enumerate(lines):
                code = text.split("!")[0]
                for nid, m in enumerate(IDENT.finditer(code)):
                    for col in ({m.start(), m.end()} if (nid + ln) % 3 == 0 or ctx.tier != "quick" else {m.start()}):
                        tq = time.process_time()
                        for method in METHODS:
                            p = params_for(method, uri, ln, col)
                            r = srv.request(method, p)
                            res.count("evaluations")
                            short = method.split("/")[-1]
                            res.seen(name, k, placement, route, f, ln, col, short)
                            if r[0] == "err":
                                res.violation(f"cycle={name}:{short}:{exc_key(r)}", f"{method} on '{m.group()}' ({f}:{ln}:{col}) of {tag}: {str(r[3])[:120]}",
                                              dict(w, method=method, file=f, line=ln, col=col))
                            elif r[0] == "resp":
                                why = M.shape_ok(method, r[2])
                                if why:
                                    res.violation(f"cycle={name}:{short}:shape", why, dict(w, method=method, file=f, line=ln, col=col))
                            nrec, where = recmon.take()
                            if nrec:
                                res.violation(f"cycle={name}:{short}:swallowed-RecursionError@{where}",
                                              f"{nrec} RecursionError(s) raised inside fortls during {method} on '{m.group()}' ({f}:{ln}:{col}) of {tag}",
                                              dict(w, method=method, file=f, line=ln, col=col))
                        dt = time.process_time() - tq
                        if dt > 3.0:
                            res.violation(f"cycle={name}:time", f"{dt:.1f}s CPU for 9 requests at {f}:{ln}:{col} of {tag}", dict(w, file=f, line=ln, col=col))
            d, ev = srv.diagnostics(uri)
            res.count("diagnostic_passes")
            for e in ev:
                check_event(res, e, name, "diagnostics", w)
            if d is None:
                res.violation(f"cycle={name}:diagnostics:not-published", f"no publishDiagnostics for {f} of {tag}", dict(w, file=f))
            nrec, where = recmon.take()
            if nrec:
                res.violation(f"cycle={name}:diagnostics:swallowed-RecursionError@{where}", f"{nrec} RecursionError(s) during diagnostics of {f} in {tag}", dict(w, file=f))
            r = srv.request("textDocument/documentSymbol", {"textDocument": {"uri": uri}})
            if r[0] != "resp":
                res.violation(f"cycle={name}:documentSymbol:{exc_key(r)}", str(r[3])[:200], dict(w, file=f))
        r = srv.request("workspace/symbol", {"query": ""})
        if r[0] != "resp":
            res.violation(f"cycle={name}:workspaceSymbol:{exc_key(r)}", str(r[3])[:200], w)
    finally:
        ws.close()
    if i % 97 == 0:
        res.sample({"entry": name, "k": k, "placement": placement, "route": route, "files": {f: t[:400] for f, t in list(files.items())[:2]}}, limit=1)
    return res


def check_event(res, e, name, phase, w):
    if e[0] == "err":
        res.violation(f"cycle={name}:{phase}:error-response:{exc_key(e)}", f"{e[1:4]!r}"[:300], w)
    elif e[0] == "notif" and e[1] == "window/showMessage" and "failed" in str(e[2].get("message")):
        res.violation(f"cycle={name}:{phase}:failed-message", str(e[2].get("message"))[:300], w)


def on_stuck(i, why, tail, mark):
    return {"key": f"cycle={(mark or {}).get('entry')}:hang", "what": f"case {i} did not terminate ({why}); {tail[-500:]}", "witness": mark, "case": i}


def finalize(stats, kinds):
    return {"exhaustive_part": "thorough: catalogue entries x k in 1..4 x {split, joined} x {pooled, incremental, incremental-reversed}, every combination; quick: the same complete enumeration (identifier end columns sampled)",
            "catalogue_entries": [n for n, _ in CATALOGUE]}
