"""C16 — wire framing is byte-exact in both directions; file URIs round-trip.

(out) every message the real connection writes is parsed by our strict reader (Content-Length == byte length, CRLFCRLF,
      UTF-8 JSON) and must equal the object sent; (in) random message sequences are framed by our writer (either header
      order, extra header, raw UTF-8 or \\u escapes), delivered through a raw reader that returns arbitrary small chunks, and
      the real reader must return exactly the objects sent; (uri) path <-> URI round trips against an independent RFC 3986
      encoder; plus subprocess sessions over real pipes with chunked writes and hostile file names.
"""
import io
import json
import os
import random
import time
import urllib.parse

from vf.core import Result, repo_first
from vf import harness as H
from vf.dsub import frame, parse_stream, SubServer

repo_first()

PROP = "C16"
LEVEL = "exploration"
META = {
    "engine": "trace-monitor",
    "technique": "runtime monitor: independent strict LSP framer/reader on both directions of the real JSONRPC2Connection (chunking raw reader in-process, real pipes with split writes for subprocess sessions) and an independent RFC 3986 encoder for URI round trips",
    "text": "Random payloads over the full Unicode range are written by the real connection and re-read by a strict independent reader; random message streams framed by an independent writer (both header orders, extra headers, escaped or raw UTF-8, back-to-back) are delivered in arbitrary chunks to the real reader, in-process through a chunking raw stream and end-to-end through the pipes of a real server process whose echoes (response id, method-not-found text, URIs of hostile file names) reveal what was decoded. Sampled, not enumerated.",
    "note": "trusted: our framer/reader (60 lines) and urllib.parse-free RFC 3986 encoder; paths are absolute, normalised, symlink-free, NUL-free; lone surrogates are not sent (not valid UTF-8)",
}
RULE = ("streams of 1-8 JSON-RPC messages with payload strings drawn from ASCII, Latin-1, BMP, astral, control characters, JSON-special characters; "
        "framing variants {Content-Length first, Content-Type first, Content-Length only, extra unknown header} x {raw UTF-8, \\u escapes}; chunk "
        "splits at random byte offsets incl. inside multi-byte characters, between CR and LF and inside headers; paths with spaces, %, %20, #, ?, &, +, "
        "non-ASCII, encoded with upper/lower hex and optional encoding of sub-delims; evaluations = messages or paths checked; distinct = "
        "(direction, framing variant, chunking class, payload class) + path fingerprints")
ASSUME = ["the input stream is correctly framed UTF-8 JSON", "paths contain no NUL and no symlinks and are already absolute and normalised"]


def plan(tier):
    if tier == "quick":
        return {"ncases": 480, "nshards": 16, "budget_s": 70, "floor": 4000, "stall_s": 60}
    return {"ncases": 30000, "nshards": 16, "budget_s": 1500, "floor": 200000, "stall_s": 240}


ALPHABETS = {
    "ascii": "abcXYZ019 _-./:",
    "json": "\"\\/\b\f\n\r\t{}[],:",
    "latin1": "éüñß¿©",
    "bmp": "∑漢字Ωжשלום‰​  ﻿",
    "astral": "😀𝔘🚀𠀋",
    "control": "\x00\x01\x1f\x7f\x80\x9f",
}


def rand_str(rng, classes=None):
    classes = classes or rng.sample(list(ALPHABETS), rng.randint(1, 3))
    n = rng.choice([0, 1, 2, 5, 17, 40, 200])
    return "".join(rng.choice(ALPHABETS[rng.choice(classes)]) for _ in range(n)), "+".join(sorted(classes))


def rand_json(rng, depth=0):
    r = rng.random()
    if depth > 2 or r < 0.4:
        return rng.choice([rand_str(rng)[0], rng.randint(-10, 10 ** 12), None, True, False, 1.5, 0, -0.0, 1e300, ""])
    if r < 0.7:
        return [rand_json(rng, depth + 1) for _ in range(rng.randint(0, 4))]
    return {rand_str(rng)[0][:20]: rand_json(rng, depth + 1) for _ in range(rng.randint(0, 4))}


class ChunkRaw(io.RawIOBase):
    """a raw byte stream that returns the data in prescribed pieces (like a pipe written in bursts)"""

    def __init__(self, data: bytes, cuts):
        self.data, self.pos = data, 0
        self.cuts = sorted(set(c for c in cuts if 0 < c < len(data))) + [len(data)]

    def readable(self):
        return True

    def readinto(self, b):
        if self.pos >= len(self.data):
            return 0
        nxt = next(c for c in self.cuts if c > self.pos)
        n = min(len(b), nxt - self.pos)
        b[:n] = self.data[self.pos:self.pos + n]
        self.pos += n
        return n


def rand_cuts(rng, data):
    mode = rng.choice(["none", "every-byte", "few", "many", "crlf", "multibyte"])
    n = len(data)
    if mode == "none":
        return mode, []
    if mode == "every-byte":
        return mode, list(range(1, n)) if n < 4000 else rng.sample(range(1, n), 2000)
    if mode == "few":
        return mode, [rng.randrange(1, n) for _ in range(rng.randint(1, 4))] if n > 1 else []
    if mode == "many":
        return mode, [rng.randrange(1, n) for _ in range(rng.randint(10, 60))] if n > 1 else []
    if mode == "crlf":
        return mode, [k + 1 for k in range(n - 1) if data[k:k + 2] == b"\r\n"]
    return mode, [k for k in range(1, n) if data[k] & 0xC0 == 0x80]


def rfc3986_encode(path, rng, lower_hex=False, keep_subdelims=False):
    """independent encoder: percent-encode everything but unreserved (and optionally sub-delims / ':' '@')"""
    keep = "ABCDEFGHIJKLMNOPQRSTUVWXYZabcdefghijklmnopqrstuvwxyz0123456789-._~/"
    if keep_subdelims:
        keep += "!$&'()*+,;=:@"
    out = []
    for byte in path.encode("utf-8"):
        ch = chr(byte)
        if byte < 128 and ch in keep:
            out.append(ch)
        else:
            out.append(("%%%02x" if lower_hex else "%%%02X") % byte)
    return "file://" + "".join(out)


def rfc3986_decode(uri):
    assert uri.startswith("file://"), uri
    raw = uri[7:]
    out = bytearray()
    k = 0
    while k < len(raw):
        if raw[k] == "%" and k + 2 < len(raw) + 0 and all(c in "0123456789abcdefABCDEF" for c in raw[k + 1:k + 3]) and len(raw[k + 1:k + 3]) == 2:
            out.append(int(raw[k + 1:k + 3], 16))
            k += 3
        else:
            out += raw[k].encode("utf-8")
            k += 1
    return out.decode("utf-8")


NAME_PARTS = ["a b", "100%", "%20", "x#y", "q?z", "a&b", "c+d", "é", "漢字", "😀", "semi;colon", "eq=al", "at@", "co,mma", "(p)", "[b]", "sp  ace", "tilde~", "dollar$", "'q'", "ex!", "star*",
              "back\\slash", "%2F", "%", "%zz", "per%cent%25", "pipe|", "caret^", "{br}", "`t`", " nbsp", "dot.", "..x", "x:y"]


def rand_name(rng):
    return "".join(rng.choice(NAME_PARTS + ["m", "src", "f"]) for _ in range(rng.randint(1, 3)))


def check_out(rng, res):
    """(out) the real connection's writer against our strict reader"""
    from fortls.jsonrpc import JSONRPC2Connection, ReadWriter
    out = io.BytesIO()
    conn = JSONRPC2Connection(ReadWriter(io.BytesIO(b""), out))
    sent = []
    for _ in range(rng.randint(1, 6)):
        kind = rng.choice(["resp", "err", "notif"])
        s, cls = rand_str(rng)
        if kind == "resp":
            rid = rng.choice([rng.randint(0, 999), s[:30] or "id"])
            payload = rand_json(rng)
            conn.write_response(rid, payload)
            sent.append({"jsonrpc": "2.0", "id": rid, "result": payload})
        elif kind == "err":
            rid = rng.randint(0, 999)
            conn.write_error(rid, -32603, s, data={"traceback": s})
            sent.append({"jsonrpc": "2.0", "id": rid, "error": {"code": -32603, "message": s, "data": {"traceback": s}}})
        else:
            payload = {"uri": "file:///" + s, "diagnostics": [{"message": s}]}
            conn.send_notification("textDocument/publishDiagnostics", payload)
            sent.append({"jsonrpc": "2.0", "method": "textDocument/publishDiagnostics", "params": payload})
        res.seen("out", kind, cls, len(s) > 100)
    raw = out.getvalue()
    msgs, left, errs = parse_stream(raw)
    res.count("evaluations", len(sent))
    res.count("out_messages", len(sent))
    w = {"direction": "out", "sent": sent, "raw_head": raw[:300].decode("latin-1")}
    for e in errs:
        res.violation("out:framing:" + e.split(" ")[0], e, w)
    if left:
        res.violation("out:trailing-bytes", f"{len(left)} bytes left over after the last complete message: {left[:60]!r}", w)
    if not errs and not left and msgs != sent:
        res.violation("out:content-differs", f"strict reader recovered {H.jdump(msgs, 300)} but {H.jdump(sent, 300)} was written", w)


def check_in(rng, res):
    """(in) our framer + chunking raw stream against the real reader"""
    from fortls.jsonrpc import JSONRPC2Connection, ReadWriter
    sent = []
    data = b""
    variants = []
    for _ in range(rng.randint(1, 8)):
        s, cls = rand_str(rng)
        m = {"jsonrpc": "2.0", "method": rng.choice(["textDocument/hover", s[:40], "x"]), "params": rand_json(rng)}
        if rng.random() < 0.7:
            m["id"] = rng.choice([rng.randint(0, 10 ** 6), s[:25]])
        order = rng.choice(["cl-first", "cl-first", "ct-first", "cl-only"])
        esc = rng.random() < 0.4
        xh = rng.random() < 0.2
        try:
            data += frame(m, header_order=order, ensure_ascii=esc, extra_header=xh)
        except UnicodeEncodeError:
            continue
        sent.append(m)
        variants.append((order, esc, xh, cls))
    mode, cuts = rand_cuts(rng, data)
    for v in variants:
        res.seen("in", mode, *v)
    reader = io.BufferedReader(ChunkRaw(data, cuts), buffer_size=rng.choice([1, 16, 8192]))
    conn = JSONRPC2Connection(ReadWriter(reader, io.BytesIO()))
    got = []
    w = {"direction": "in", "sent": sent, "variants": variants, "chunking": mode, "cuts": cuts[:50], "stream_head": data[:400].decode("latin-1")}
    try:
        while True:
            try:
                got.append(conn.read_message())
            except EOFError:
                break
            if len(got) > len(sent) + 2:
                break
    except Exception as e:  # noqa
        orders = sorted(set(v[0] for v in variants))
        res.violation(f"in:reader-raised:{type(e).__name__}:" + ("+".join(orders)), f"read_message raised {e!r} after {len(got)}/{len(sent)} messages", w)
        res.count("evaluations", len(sent))
        return
    res.count("evaluations", len(sent))
    res.count("in_messages", len(sent))
    res.kind("chunking:" + mode)
    if got != sent:
        k = next((n for n in range(min(len(got), len(sent))) if got[n] != sent[n]), min(len(got), len(sent)))
        res.violation("in:decoded-differs", f"message {k}: decoded {H.jdump(got[k:k + 1], 200)} sent {H.jdump(sent[k:k + 1], 200)} ({len(got)} vs {len(sent)} messages)", w)


def check_uri(rng, res, root="/tmp/vf-uri-root"):
    from fortls.jsonrpc import path_from_uri, path_to_uri
    for _ in range(40):
        parts = [rand_name(rng) for _ in range(rng.randint(1, 4))]
        if any(p in (".", "..") or "/" in p or "\x00" in p for p in parts):
            continue
        path = os.path.join(root, *parts)
        res.count("evaluations")
        res.count("uri_paths")
        res.seen("uri", path)
        w = {"direction": "uri", "path": path}
        try:
            u = path_to_uri(path)
            back = path_from_uri(u)
        except Exception as e:  # noqa
            res.violation(f"uri:raised:{type(e).__name__}", f"{e!r} for {path!r}", w)
            continue
        if back != path:
            res.violation("uri:roundtrip-differs", f"path_from_uri(path_to_uri(p)) = {back!r} for p = {path!r} (uri {u!r})", w)
        try:
            if rfc3986_decode(u) != path:
                res.violation("uri:to_uri-not-rfc3986", f"path_to_uri({path!r}) = {u!r} decodes to {rfc3986_decode(u)!r}", w)
        except Exception as e:  # noqa
            res.violation("uri:to_uri-not-decodable", f"{u!r}: {e!r}", w)
        for lower in (False, True):
            for keep in (False, True):
                u2 = rfc3986_encode(path, rng, lower, keep)
                try:
                    b2 = path_from_uri(u2)
                except Exception as e:  # noqa
                    res.violation(f"uri:from_uri-raised:{type(e).__name__}", f"{e!r} for {u2!r}", dict(w, uri=u2))
                    continue
                if b2 != path:
                    res.violation("uri:from_uri-differs", f"path_from_uri({u2!r}) = {b2!r}, expected {path!r}", dict(w, uri=u2))


def check_subprocess(ctx, rng, res):
    """real pipes: chunked writes, hostile file names, non-ASCII content; echoes reveal what the server decoded"""
    files = {}
    names = []
    for k in range(4):
        d = rand_name(rng)
        n = rand_name(rng) + f"_{k}.f90"
        if "/" in d or "/" in n or "\x00" in d + n or d in (".", ".."):
            continue
        doc = rand_str(rng, ["latin1", "bmp", "astral"])[0].replace("\n", " ").replace("\r", " ").replace(" ", " ").replace(" ", " ")
        files[os.path.join(d, n)] = f"module mod_{k}\n  !> {doc}\n  integer :: var_{k} ! {doc}\n  character(len=9) :: s_{k} = '{doc[:5].replace(chr(39), '')}'\ncontains\n  subroutine sub_{k}()\n  end subroutine sub_{k}\nend module mod_{k}\n"
        names.append((os.path.join(d, n), k))
    with H.Workspace(files) as ws:
        w = {"direction": "subprocess", "files": list(files)}
        ctx.mark(w)
        srv = SubServer(["--disable_autoupdate", "--nthreads", "2"])
        try:
            sent_ids = []
            # initialize, framed with a random variant and written in chunks
            def send(m, **kw):
                order = rng.choice(["cl-first", "ct-first", "cl-only"])
                data = frame(m, header_order=order, ensure_ascii=rng.random() < 0.4, extra_header=rng.random() < 0.2)
                mode, cuts = rand_cuts(rng, data)
                if mode == "every-byte" and len(data) > 600:
                    cuts = cuts[:200]
                res.seen("sub", order, mode)
                srv.write(data, sorted(set(cuts)), pause=0.0005 if rng.random() < 0.5 else 0)
                return order, mode
            send({"jsonrpc": "2.0", "id": 0, "method": "initialize", "params": {"rootPath": ws.root}})
            r = srv.wait_for(lambda x: x.get("id") == 0 and "method" not in x, 30)
            if r is None or "result" not in r:
                res.violation("subprocess:initialize-failed", f"{r!r} alive={srv.alive()}", w)
                return
            for rel, k in names:
                # several messages back-to-back in ONE write: echo id + unknown-method echo + symbols
                uid = "id-" + rand_str(rng, ["latin1", "bmp", "astral"])[0][:12] + f"-{k}"
                meth = "zz/" + rand_str(rng, ["latin1", "bmp", "astral", "json"])[0][:12]
                m1 = {"jsonrpc": "2.0", "id": uid, "method": meth, "params": {}}
                m2 = {"jsonrpc": "2.0", "id": 1000 + k, "method": "textDocument/documentSymbol", "params": {"textDocument": {"uri": rfc3986_encode(ws.path(rel), rng, rng.random() < 0.5, rng.random() < 0.5)}}}
                m3 = {"jsonrpc": "2.0", "id": 2000 + k, "method": "workspace/symbol", "params": {"query": f"var_{k}"}}
                data = b"".join(frame(m, header_order=rng.choice(["cl-first", "ct-first", "cl-only"]), ensure_ascii=rng.random() < 0.4) for m in (m1, m2, m3))
                mode, cuts = rand_cuts(rng, data)
                if mode == "every-byte":
                    cuts = cuts[:300]
                srv.write(data, sorted(set(cuts)), pause=0.0005 if rng.random() < 0.3 else 0)
                res.count("evaluations", 3)
                res.count("subprocess_messages", 3)
                r3 = srv.wait_for(lambda x, q=2000 + k: x.get("id") == q and "method" not in x, 30)
                if r3 is None:
                    res.violation("subprocess:no-answer", f"no answer to back-to-back batch (chunking {mode}); alive={srv.alive()} errors={srv.errors[:2]}", dict(w, batch=[m1, m2, m3]))
                    return
                r1 = next((x for x in srv.msgs if x.get("id") == uid and "method" not in x), None)
                r2 = next((x for x in srv.msgs if x.get("id") == 1000 + k and "method" not in x), None)
                if r1 is None:
                    res.violation("subprocess:id-not-echoed", f"no response carries id {uid!r}; ids seen {[x.get('id') for x in srv.msgs][-6:]!r}", dict(w, batch=[m1]))
                elif r1.get("error", {}).get("message") != f"method {meth} not found":
                    res.violation("subprocess:method-echo-differs", f"sent method {meth!r}, server says {r1.get('error', {}).get('message')!r}", dict(w, batch=[m1]))
                if r2 is None or not r2.get("result"):
                    res.violation("subprocess:file-not-found-by-uri", f"documentSymbol via independently encoded URI {m2['params']['textDocument']['uri']!r} -> {H.jdump(r2, 200)}", dict(w, batch=[m2]))
                else:
                    for sym in r2["result"]:
                        u = sym["location"]["uri"]
                        try:
                            p = rfc3986_decode(u)
                        except Exception:
                            p = None
                        if p != ws.path(rel):
                            res.violation("subprocess:result-uri-does-not-decode-to-path", f"{u!r} -> {p!r}, expected {ws.path(rel)!r}", dict(w, batch=[m2]))
                            break
                if not r3.get("result") or rfc3986_decode(r3["result"][0]["location"]["uri"]) != ws.path(rel):
                    res.violation("subprocess:workspace-symbol-uri", f"{H.jdump(r3, 300)} expected file {ws.path(rel)!r}", dict(w, batch=[m3]))
            # hover carrying non-ASCII documentation through the writer
            for rel, k in names[:2]:
                r = srv.request(3000 + k, "textDocument/hover", {"textDocument": {"uri": ws.uri(rel)}, "position": {"line": 2, "character": 14}})
                res.count("evaluations")
                if r is None:
                    res.violation("subprocess:no-answer", f"hover on documented variable: no answer; errors={srv.errors[:2]}", w)
            rc = srv.finish(10)
            for e in srv.errors:
                res.violation("subprocess:out:framing:" + e.split(" ")[0], e, w)
            if rc != 0:
                res.violation("subprocess:exit-code", f"rc={rc}", w)
            res.count("subprocess_sessions")
        finally:
            srv.kill()


def run_case(ctx, i, rng):
    res = Result()
    nsub = 24 if ctx.tier == "quick" else 600
    if i < nsub:
        check_subprocess(ctx, rng, res)
        return res
    for _ in range(12):
        check_out(rng, res)
        check_in(rng, res)
    check_uri(rng, res)
    if i % 100 == 30:
        res.sample({"direction": "in", "example": "Content-Type first, \\u-escaped astral id, cut inside multi-byte char"}, limit=1)
    return res


def on_stuck(i, why, tail, mark):
    return {"key": "hang:" + str((mark or {}).get("direction", "in-process")), "what": f"case {i} did not terminate ({why}); {tail[-400:]}", "witness": mark, "case": i}
