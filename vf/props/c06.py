"""C06 — references, documentHighlight and rename cover exactly the occurrences of the entity.

Oracle: the occurrence sets recorded by the program generator (every emitted name occurrence knows its entity).
Monitor: references / documentHighlight from several occurrences of every variable and procedure; rename edits applied to
the workspace text must reproduce the text with exactly the entity's occurrences replaced.
"""
import os

from vf.core import Result
from vf import harness as H
from vf import model as M
from vf.props.c05 import site_scope, use_closure

PROP = "C06"
LEVEL = "exploration"
META = {
    "engine": "model-monitor",
    "technique": "runtime monitor: references/documentHighlight/rename results compared with the generator's recorded occurrence sets (exact ranges), from several occurrences per entity; rename edits applied and compared byte-for-byte with the expected text",
    "text": "For every user-declared variable and procedure of gfortran-validated generated workspaces (tight operators `i=i+1`, `$` names, shadowing, homonyms in other modules, names in ONLY lists, PUBLIC statements, END statements, binding targets, MODULE PROCEDURE lists, decoys in comments and strings) references and highlight are requested from up to four of its occurrences; each must return exactly the recorded occurrence ranges (alias-spelled occurrences are don't-care) and all must agree; applying the rename edits must yield exactly the text with those ranges replaced. Sampled programs; all entities. Every 10th case is a host-association workspace (entities of a module used from a submodule and INCLUDEd fragments in other files, PUBLIC/default/PRIVATE) with the token scan as oracle.",
    "note": "trusted: generator bookkeeping of occurrences; alias-spelled occurrences (`only: loc => rem`) are don't-care for references and entities that have aliases are not renamed; new names are fresh identifiers",
}
RULE = ("entities (var, sub, fun incl. dummies, results, loop variables) x up to 4 query occurrences x {references, documentHighlight} + one rename per entity; "
        "evaluations = requests compared; distinct = (workspace, entity, query occurrence, method)")
ASSUME = ["gfortran-accepted programs", "new names do not collide with existing identifiers"]

CTX_ALL = ("decl", "ref", "call", "dummy", "prochdr", "procend", "only", "only-remote", "vis-stmt", "modproc", "bind-target", "result-decl")


def plan(tier):
    if tier == "quick":
        return {"ncases": 1000, "nshards": 16, "budget_s": 75, "floor": 40000, "stall_s": 60}
    return {"ncases": 20000, "nshards": 16, "budget_s": 1800, "floor": 600000, "stall_s": 300}


def to_set(ws, result):
    out = set()
    for loc in result or []:
        f = os.path.relpath(H.path_from_uri(loc["uri"]), ws.root)
        r = loc["range"]
        out.add((f, r["start"]["line"], r["start"]["character"], r["end"]["character"]))
    return out


def apply_edits(files, ws, changes):
    out = {f: t.split("\n") for f, t in files.items()}
    for uri, edits in changes.items():
        f = os.path.relpath(H.path_from_uri(uri), ws.root)
        for e in sorted(edits, key=lambda e: (e["range"]["start"]["line"], e["range"]["start"]["character"]), reverse=True):
            r = e["range"]
            ln = r["start"]["line"]
            if r["end"]["line"] != ln:
                return None
            line = out[f][ln]
            out[f][ln] = line[:r["start"]["character"]] + e["newText"] + line[r["end"]["character"]:]
    return {f: "\n".join(ls) for f, ls in out.items()}


def host_assoc_case(ctx, i, rng, res):
    """entities of a module used from a submodule and an INCLUDEd fragment in other files (unique names: oracle = token scan)"""
    from vf import hostassoc as HA
    files, names, vis = HA.gen(rng)
    ws, srv, ev = H.start(files, nthreads=rng.choice([1, 2]))
    try:
        res.kind("class:host-assoc")
        for nm in names:
            if vis[nm] == "fragment":
                continue  # entities of a shared fragment belong to one includer at a time (recorded finding of C10/C15)
            occ = HA.occurrences(files, nm)
            incfile = {o for o in occ if o[0].endswith("_inc.f90")}
            res.kind("host-assoc:" + vis[nm])
            for q in sorted(occ):
                if q[0].endswith("_inc.f90"):
                    continue  # queries inside the fragment depend on which includer is current (recorded finding of C10/C15)
                for col in (q[2], q[3]):
                    r = srv.request("textDocument/references", srv.pos(ws.uri(q[0]), q[1], col, context={"includeDeclaration": True}))
                    res.count("evaluations")
                    res.seen(i, nm, q, col, "references")
                    got = to_set(ws, r[2]) if r[0] == "resp" else None
                    if got is None or got - incfile != occ - incfile or not (got & incfile <= incfile):
                        res.violation(f"host-assoc:references:{vis[nm]}:" + ("missing" if got is not None and (occ - incfile) - got else "extra-or-error"),
                                      f"references of {nm} from {q[:2]}:{col}: missing {sorted((occ - incfile) - (got or set()))[:4]} extra {sorted((got or set()) - occ)[:4]}",
                                      {"files": files, "name": nm, "query": list(q)})
                        break
                else:
                    continue
                break
            # rename from a random occurrence outside the fragment
            qs = sorted(o for o in occ if not o[0].endswith("_inc.f90"))
            q = rng.choice(qs)
            r = srv.request("textDocument/rename", dict(srv.pos(ws.uri(q[0]), q[1], q[2]), newName="zz_host_new"))
            res.count("evaluations")
            if r[0] == "resp" and r[2]:
                new = apply_edits(files, ws, r[2].get("changes", {}))
                want = {}
                for f, t in files.items():
                    ls = t.split("\n")
                    for o in sorted((o for o in occ if o[0] == f), key=lambda o: (o[1], -o[2])):
                        ls[o[1]] = ls[o[1]][:o[2]] + "zz_host_new" + ls[o[1]][o[3]:]
                    want[f] = "\n".join(ls)
                bad = [f for f in files if not f.endswith("_inc.f90") and (new or {}).get(f) != want[f]]
                if bad:
                    res.violation(f"host-assoc:rename:{vis[nm]}", f"rename of {nm} from {q[:2]} leaves {bad} different from the expected text", {"files": files, "name": nm, "query": list(q)})
            else:
                res.violation(f"host-assoc:rename:{vis[nm]}:none", f"rename of {nm} from {q[:2]} -> {str(r)[:120]}", {"files": files, "name": nm, "query": list(q)})
    finally:
        ws.close()
    return res


def run_case(ctx, i, rng):
    res = Result()
    if i % 10 == 9:
        return host_assoc_case(ctx, i, rng, res)
    style = M.Style(rng) if rng.random() < 0.5 else None
    tight = rng.random() < 0.5
    w = M.gen_workspace(rng, style=style, tight=tight, dollar=rng.random() < 0.3)
    if M.have_gfortran():
        ok, err = M.gfortran_check(w.files, w.order, std="gnu" if "$" in "".join(w.files.values()) else "f2018", extra=("-fdollar-ok",))
        if not ok:
            res.count("generator_rejects")
            return res
    ws, srv, ev = H.start(w.files, nthreads=2)
    try:
        for f in w.files:
            srv.did_open(ws.uri(f))
        by_ent = {}
        for o in w.occs:
            by_ent.setdefault(id(o.ent), (o.ent, []))[1].append(o)
        for ent, occs in by_ent.values():
            if ent.kind not in ("var", "sub", "fun") or getattr(ent, "assoc", False):
                continue
            own = [o for o in occs if o.name.lower() == ent.name.lower() and o.ctx in CTX_ALL]
            alias = [o for o in occs if o.name.lower() != ent.name.lower()]
            result_uses = []
            if ent.kind == "fun" and getattr(ent, "node", None) is not None and ent.node.result is None:
                # inside a function without RESULT clause its name denotes the result variable, a distinct entity: don't-care
                nd = ent.node
                inner = [o for o in own if o.ctx == "result-decl" or (o.ctx == "ref" and o.file == nd.file and nd.sline < o.line < nd.eline)]
                own = [o for o in own if o not in inner]
                result_uses = inner
            want = {(o.file, o.line, o.col, o.col + len(o.name)) for o in own}
            alias_set = {(o.file, o.line, o.col, o.col + len(o.name)) for o in alias + result_uses}
            if not own:
                continue
            queries = [own[0], own[-1]] + ([rng.choice(own), rng.choice(own)] if len(own) > 2 else [])
            seen_q = set()
            results = []
            sc = site_scope(w, own[0])
            feats = []
            if alias:
                feats.append("has-alias")
            if getattr(ent, "is_arg", False):
                feats.append("dummy")
            if any(o.ctx == "bind-target" for o in own):
                feats.append("binding-target")
            if any(o.ctx == "modproc" for o in own):
                feats.append("generic-member")
            if "$" in ent.name:
                feats.append("dollar")
            ftag = "+".join(feats) or "plain"
            broke = False
            for q in queries:
                if (q.file, q.line, q.col) in seen_q:
                    continue
                seen_q.add((q.file, q.line, q.col))
                for method in ("textDocument/references", "textDocument/documentHighlight"):
                    p = srv.pos(ws.uri(q.file), q.line, q.col + len(q.name) // 2)
                    if method.endswith("references"):
                        p["context"] = {"includeDeclaration": True}
                    r = srv.request(method, p)
                    res.count("evaluations")
                    res.seen(i, ent.name, id(ent) % 100000, q.file, q.line, q.col, method[-5:])
                    short = method.split("/")[-1]
                    wit = {"files": w.files, "entity": [ent.kind, ent.name, ent.file, ent.line], "query": [q.file, q.line, q.col, q.name, q.ctx], "method": method}
                    if r[0] != "resp":
                        res.violation(f"{short}:error:{ent.kind}:{ftag}", str(r[1:4])[:200], wit)
                        broke = True
                        break
                    got = to_set(ws, r[2])
                    results.append((q, short, got))
                    miss = want - got
                    extra = got - want - alias_set
                    if miss or extra:
                        kinds_m = sorted({o.ctx for o in own if (o.file, o.line, o.col, o.col + len(o.name)) in miss})
                        decoy = [e for e in extra if is_decoy(w, e)]
                        where = "extra:comment-or-string" if decoy else ("extra" if extra else "")
                        key = f"{short}:{ent.kind}:" + ("missing:" + "+".join(kinds_m) if miss else where) + f":{ftag}:query-at-{q.ctx}"
                        if sc is not None and any(v == "private" for m in use_closure(sc) + w.mods for v in m.reexport_vis.values()) and not decoy:
                            key = "use-tree:private-statement-on-use-associated-name-ignored"
                        wr = {n_.lower() for s_ in w.scopes for u_ in s_.uses for pair in (getattr(u_, "renames", None) or []) for n_ in pair}
                        if ent.name.lower() in wr:
                            # the entity is the remote or local side of a `use m, local => remote` without ONLY (C05 findings of that name)
                            key = "use-tree:rename-without-only"
                        res.violation(key, f"{short} on '{ent.name}' ({ent.kind}) from {q.file}:{q.line}:{q.col} ({q.ctx}): missing {sorted(miss)[:4]} extra {sorted(extra)[:4]} (expected {len(want)} occurrences)",
                                      dict(wit, missing=sorted(miss), extra=sorted(extra)))
                        broke = True
                        break
                if broke:
                    break
            if broke:
                continue
            res.kind(f"ok:{ent.kind}:{ftag}")
            # rename (entities without aliases only)
            if alias:
                res.count("rename_skipped_alias")
                continue
            q = rng.choice(own)
            newname = "zq_new_" + str(rng.randint(10, 99))
            p = srv.pos(ws.uri(q.file), q.line, q.col)
            p["newName"] = newname
            r = srv.request("textDocument/rename", p)
            res.count("evaluations")
            wit = {"files": w.files, "entity": [ent.kind, ent.name, ent.file, ent.line], "query": [q.file, q.line, q.col, q.name, q.ctx], "method": "rename", "newName": newname}
            if r[0] != "resp" or not isinstance(r[2], dict) or "changes" not in r[2]:
                res.violation(f"rename:no-edit:{ent.kind}:{ftag}", f"rename of '{ent.name}' from {q.file}:{q.line}:{q.col} -> {str(r[:4])[:200]}", wit)
                continue
            newfiles = apply_edits(w.files, ws, r[2]["changes"])
            exp = {f: t.split("\n") for f, t in w.files.items()}
            for (f, ln, a, b) in sorted(want, key=lambda x: (x[0], x[1], -x[2])):
                exp[f][ln] = exp[f][ln][:a] + newname + exp[f][ln][b:]
            exp = {f: "\n".join(ls) for f, ls in exp.items()}
            res.count("renames_compared")
            if result_uses and newfiles != exp:
                # a function renamed together with the uses of its name as result variable is the complete rename
                exp2 = {f: t.split("\n") for f, t in w.files.items()}
                allr = want | {(o.file, o.line, o.col, o.col + len(o.name)) for o in result_uses}
                for (f, ln, a, b) in sorted(allr, key=lambda x: (x[0], x[1], -x[2])):
                    exp2[f][ln] = exp2[f][ln][:a] + newname + exp2[f][ln][b:]
                exp2 = {f: "\n".join(ls) for f, ls in exp2.items()}
                if newfiles == exp2:
                    continue
                res.violation("rename:function-result-variable-uses-not-renamed" if newfiles == exp else f"rename:text-differs:{ent.kind}:{ftag}:result-variable",
                              f"renaming function '{ent.name}' (no RESULT clause) does not rename the uses of its name as result variable inside the function", wit)
                continue
            if newfiles != exp:
                bad = [f for f in exp if newfiles is None or newfiles.get(f) != exp[f]]
                f0 = bad[0]
                dl = next((n for n, (x, y) in enumerate(zip((newfiles or {}).get(f0, "").split("\n"), exp[f0].split("\n"))) if x != y), -1)
                res.violation(f"rename:text-differs:{ent.kind}:{ftag}", f"renaming '{ent.name}' -> {newname}: file {f0} line {dl}: got {(newfiles or {}).get(f0, '').split(chr(10))[dl] if dl >= 0 else '?'!r}, expected {exp[f0].split(chr(10))[dl] if dl >= 0 else '?'!r}", wit)
        if i % 80 == 4:
            res.sample({"file": w.order[0], "tight": tight, "text": w.files[w.order[0]][:500]}, limit=1)
    finally:
        ws.close()
    return res


def is_decoy(w, loc):
    f, ln, a, b = loc
    line = w.lines[f][ln] if ln < len(w.lines[f]) else ""
    pre = line[:a]
    return "!" in pre or pre.count("'") % 2 == 1 or pre.count('"') % 2 == 1
