"""C15 — the start-up index does not depend on workers, enumeration order or hash seed.

Differential: the normalised query battery of a server started under schedule sigma (worker count, directory/file
enumeration order, worker completion order by injected delays, interpreter hash seed) and of an incremental server (empty
root, files opened one at a time in order pi) must equal the battery of the baseline schedule.
"""
import itertools
import os
import pickle
import random
import traceback

from vf.core import Result
from vf import harness as H
from vf import model as M
from vf import battery as B
from vf import inproc_monitors as IM

PROP = "C15"
LEVEL = "exploration"
META = {
    "engine": "differential",
    "technique": "runtime monitor: schedule exploration (worker count, permuted os.listdir/os.walk order, injected worker delays, PYTHONHASHSEED, incremental opening order) with a differential oracle on the full query battery against a baseline schedule",
    "text": "Generated multi-file workspaces with unique top-level names (cross-file USE, EXTENDS chains with overriding bindings, generic interfaces, a shared INCLUDE file, a module/submodule pair, several directories) are indexed under many schedules: worker counts 1-16, hooked directory enumeration orders, per-file worker delays that permute completion order, interpreter hash seeds (real subprocesses), and the incremental path (empty root, every opening order for <=4 files, sampled otherwise); outline, workspace symbols, definition, hover, completion, references, signature help and diagnostics must equal the baseline's. Schedules are sampled except the small-permutation part.",
    "note": "trusted: the battery normalisation (order-free lists compared as sorted multisets, paths root-relative); schedule = what can vary for a single-threaded server with one start-up pool; equality is on client-visible answers, not internal state",
}
RULE = ("(workspace, schedule) pairs: schedule in {pooled(nthreads in 1,2,3,4,8,16; listing seed; worker-delay seed), hashseed(1..7 via subprocess), incremental(opening order)}; "
        "battery = outline/diagnostics per file, workspace symbols, and definition/hover/completion/references/signatureHelp at 25 sampled identifiers per file; "
        "evaluations = battery entries compared; distinct = (workspace, schedule, battery key)")
ASSUME = ["top-level unit names are unique in the workspace", "the baseline schedule is nthreads=1, name-sorted listing, PYTHONHASHSEED=0"]


def plan(tier):
    if tier == "quick":
        return {"ncases": 160, "nshards": 16, "budget_s": 80, "floor": 50000, "stall_s": 70}
    return {"ncases": 4000, "nshards": 16, "budget_s": 2400, "floor": 1500000, "stall_s": 300}


def in_child(fn):
    r, w = os.pipe()
    pid = os.fork()
    if pid == 0:
        try:
            os.close(r)
            try:
                out = ("ok", fn())
            except BaseException:  # noqa
                out = ("exc", traceback.format_exc()[-1500:])
            with os.fdopen(w, "wb") as fh:
                pickle.dump(out, fh)
        finally:
            os._exit(0)
    os.close(w)
    with os.fdopen(r, "rb") as fh:
        data = fh.read()
    os.waitpid(pid, 0)
    try:
        return pickle.loads(data)
    except Exception:
        return ("exc", "child died")


def pooled(root, files, pos, nthreads, list_seed, delay_seed, args=None):
    def fn():
        if list_seed is not None:
            IM.install_listdir(list_seed)
        else:
            IM.install_listdir("sorted")
        if delay_seed is not None:
            IM.install_worker_delay(delay_seed)
        ws = H.Workspace(root=root)
        srv = H.Server(args, nthreads=nthreads)
        ev = srv.initialize(root)
        if ev[0] != "resp":
            return {"INIT": str(ev[:4])}
        return B.run(B.InprocClient(srv, ws), root, files, pos)
    return in_child(fn)


def incremental(root, empty_root, files, pos, order, args=None):
    def fn():
        ws = H.Workspace(root=root)
        srv = H.Server(args, nthreads=1)
        ev = srv.initialize(empty_root)
        for f in order:
            srv.did_open(ws.uri(f))
        return B.run(B.InprocClient(srv, ws), root, files, pos)
    return in_child(fn)


def hashseed(root, files, pos, seed, nthreads, list_seed, args=None):
    from vf.dsub import SubServer
    ws = H.Workspace(root=root)
    sub = SubServer(["--disable_autoupdate", "--nthreads", str(nthreads)] + list(args or []), hashseed=str(seed), monitors={"listdir_seed": list_seed})
    try:
        r = sub.request(1, "initialize", {"rootPath": root}, timeout=60)
        if r is None or "result" not in r:
            return ("exc", f"initialize failed: {r}")
        out = B.run(B.SubClient(sub, ws), root, files, pos)
        sub.finish(10)
        return ("ok", out)
    finally:
        sub.kill()


def install_sorted():
    pass


def compare(res, base, got, tag, wit, i):
    n = 0
    for k in sorted(base, key=str):
        res.count("evaluations")
        res.seen(i, tag, k)
        if base[k] != got.get(k, "<missing>"):
            g = got.get(k, "<missing>")
            key = f"{tag.split(':')[0]}:{k[0]}"
            if isinstance(base[k], tuple) and isinstance(g, tuple):
                sym = set(base[k]) ^ set(g)
                if sym and all("inc_decl.f90" in str(x) for x in sym):
                    key = "include:fragment-shared-by-several-includers-has-one-parent"
            n += 1
            if n <= 1 or key.startswith("include:"):
                kind = k[0]
                res.violation(key, f"[{tag}] battery entry {k}: baseline {str(base[k])[:300]} != {str(got.get(k, '<missing>'))[:300]}", dict(wit, schedule=tag, entry=list(map(str, k))))
    return n


def run_case(ctx, i, rng):
    res = Result()
    w = M.gen_workspace(rng, style=None, tight=False)
    files = dict(w.files)
    files.update(B.EXTRA_FILES)
    args = None
    if rng.random() < 0.5:
        # lower-case suffix preprocessed by configuration: the worker processes must apply the same setting as the in-process path
        files.update(B.PP_FILES)
        args = ["--pp_suffixes", ".f90", ".F90"]
    if M.have_gfortran():
        ok, err = M.gfortran_check(w.files, w.order)
        if not ok:
            res.count("generator_rejects")
            return res
    quick = ctx.tier == "quick"
    with H.Workspace(files) as ws, H.Workspace({}) as empty:
        root = ws.root
        pos = B.positions(files, rng, per_file=12 if quick else 30)
        wit = {"files": files}
        ctx.mark({"files": list(files)})
        st, base = pooled(root, files, pos, 1, None, None, args)
        if st != "ok" or "INIT" in base:
            res.inconclusive.append(f"baseline failed: {str(base)[:300]}")
            return res
        res.kind("schedule:baseline")
        # pooled schedules
        for nth in ([2, 4, 16] if quick else [1, 2, 3, 4, 8, 16]):
            ls, ds = rng.randrange(10 ** 6), rng.randrange(10 ** 6)
            st, got = pooled(root, files, pos, nth, ls, ds if rng.random() < 0.7 else None, args)
            tag = f"pooled:nthreads={nth}:listing={ls}:delays={'on' if ds is not None else 'off'}"
            res.kind(f"schedule:pooled:nthreads={nth}")
            if st != "ok" or "INIT" in got:
                res.violation("pooled:failed", f"[{tag}] {str(got)[:300]}", wit)
                continue
            compare(res, base, got, tag, wit, i)
        # incremental path
        srcs = sorted(f for f in files)
        orders = []
        if len(srcs) <= 4:
            orders = list(itertools.permutations(srcs))
        else:
            for _ in range(2 if quick else 6):
                o = srcs[:]
                rng.shuffle(o)
                orders.append(tuple(o))
            orders.append(tuple(srcs))
            orders.append(tuple(reversed(srcs)))
        for o in orders[: (3 if quick else 12)]:
            st, got = incremental(root, empty.root, files, pos, o, args)
            tag = "incremental:order=" + ",".join(os.path.basename(x) for x in o)
            res.kind("schedule:incremental")
            if st != "ok":
                res.violation("incremental:failed", f"[{tag}] {str(got)[:300]}", wit)
                continue
            compare(res, base, got, tag, wit, i)
        # hash seeds (real subprocess; the seed is fixed at interpreter start)
        if i % (4 if quick else 2) == 0:
            for seed in ([rng.randint(1, 7)] if quick else [1, 2, 3, 5]):
                st, got = hashseed(root, files, pos, seed, rng.choice([1, 4]), rng.randrange(10 ** 6), args)
                tag = f"hashseed:{seed}"
                res.kind("schedule:hashseed")
                if st != "ok":
                    res.inconclusive.append(f"hash seed run failed: {str(got)[:200]}")
                    continue
                compare(res, base, got, tag, wit, i)
        if i % 20 == 0:
            res.sample({"files": sorted(files), "schedules": ["pooled nthreads 2/4/16 with permuted listing + delays", "incremental in 3 orders", "hash seed"], "battery_entries": len(base)}, limit=1)
    return res
