"""C02 — server-side document text equals the client's after any edit sequence.

Monitor: after *every* didChange the hooked server buffer (FortranFile.contents_split, nLines) is
compared with a reference LSP client (one Python string, edits applied by offsets).
"""
import re

from vf.core import Result
from vf import harness as H
from vf.corpus import free_samples

PROP = "C02"
LEVEL = "exploration"
META = {
    "engine": "model-monitor",
    "technique": "runtime monitor: reference LSP client model compared with the hooked server buffer after every didChange of random edit histories",
    "text": "Random edit histories are applied to the real LangServer; after every notification a monitor compares the server's buffer (hooked state) with a 12-line reference client. Held on K histories; the edit space is sampled, not enumerated. Full-sync notifications carry 1-3 whole-document changes; some documents are opened with text that differs from the file; histories contain save and close-without-saving-then-open events.",
    "note": "trusted: the reference client (string + offsets over \\r\\n|\\n|\\r); positions after astral characters are outside the generator; CRLF-splitting edits are not generated",
}
RULE = ("random edit histories (1-12 didChange notifications, 1-3 contentChanges each; ranged and whole-document; "
        "inserted text empty/one char/multi-line with LF, CRLF, CR, ending in a line break, only line breaks, BMP non-ASCII) "
        "over initial documents taken from the repository samples, generated snippets, empty and unterminated documents, "
        "in full-sync and incremental-sync servers; evaluations = content changes applied and compared; "
        "distinct = (range shape, text shape, line-break kinds, position class) fingerprints of the changes")
ASSUME = [
    "reference client: text is one string, positions are (line, UTF-16 unit == code point for BMP text) over \\r\\n|\\n|\\r",
    "edits that would create or split a CRLF pair across the edit boundary are not generated (not expressible by a client)",
    "initial documents contain no TAB (the loader's TAB->blank substitution is C13's subject) and no astral characters except in the separate astral class",
]

BRK = re.compile(r"\r\n|\n|\r")


def plan(tier):
    if tier == "quick":
        return {"ncases": 4000, "nshards": 16, "budget_s": 60, "floor": 3000}
    return {"ncases": 40000, "nshards": 16, "budget_s": 900, "floor": 100000, "stall_s": 300}


def lines_of(text):
    return BRK.split(text)


def offsets(text):
    """start offset of every line"""
    offs = [0]
    for m in BRK.finditer(text):
        offs.append(m.end())
    return offs


SNIPPETS = [
    "integer :: i\n", "end subroutine\n", "subroutine s(a)\n", "  call foo(x, y)\n", "!> doc\n", "contains\n",
    "use mod, only: a => b\n", "type :: t\n", "end type t\n", "  x = y + 1 ! c\n", "#define X 1\n", "module m\n", "end module m\n",
    "implicit none", "&", "'str", ";", "end", "if (a) then\n", "end if\n", "do i=1,3\n", "end do\n", "program p\nend program p\n",
]
CHARS = "abxyz_ 09(),:=%&!'\"+-*/;<>é∑漢"


def gen_text(rng, brk_kinds):
    r = rng.random()
    if r < 0.12:
        return ""
    if r < 0.3:
        return rng.choice(CHARS)
    if r < 0.4:
        return rng.choice(brk_kinds) * rng.randint(1, 3)
    if r < 0.6:
        s = rng.choice(SNIPPETS)
    else:
        n = rng.randint(1, 4)
        parts = []
        for _ in range(n):
            parts.append("".join(rng.choice(CHARS) for _ in range(rng.randint(0, 12))))
        s = "\n".join(parts)
        if rng.random() < 0.5:
            s += "\n"
    # choose line break flavour
    b = rng.choice(brk_kinds)
    if rng.random() < 0.15:
        # mixed
        s = "".join(rng.choice(brk_kinds) if c == "\n" else c for c in s)
    else:
        s = s.replace("\n", b)
    return s


def gen_initial(rng, samples):
    r = rng.random()
    if r < 0.08:
        return ""
    if r < 0.55:
        p, t = rng.choice(samples)
        t = t.replace("\r\n", "\n").replace("\r", "\n")
        ls = t.split("\n")
        if len(ls) > 60:
            a = rng.randrange(0, len(ls) - 30)
            ls = ls[a:a + rng.randint(5, 60)]
        t = "\n".join(ls)
    else:
        t = "".join(rng.choice(SNIPPETS) for _ in range(rng.randint(1, 12)))
    if rng.random() < 0.3:
        t = t.rstrip("\n")
    elif not t.endswith("\n"):
        t += "\n"
    return t


def pick_pos(rng, lines, lo=None):
    """a position inside the document, biased to edges"""
    nl = len(lines)
    if lo is None:
        l = rng.choice([0, nl - 1, rng.randrange(nl), rng.randrange(nl)])
        lo_c = 0
    else:
        l = rng.choice([lo[0], lo[0], min(nl - 1, lo[0] + 1), rng.randrange(lo[0], nl), nl - 1])
        lo_c = lo[1] if l == lo[0] else 0
    ln = len(lines[l])
    c = rng.choice([lo_c, ln, rng.randint(lo_c, ln)]) if ln >= lo_c else ln
    return (l, c)


def apply_ref(text, change):
    """the reference LSP client"""
    if change.get("range") is None:
        return change["text"]
    offs = offsets(text)
    s, e = change["range"]["start"], change["range"]["end"]
    a = offs[s["line"]] + s["character"]
    b = offs[e["line"]] + e["character"]
    return text[:a] + change["text"] + text[b:]


def crlf_ambiguous(text, a, b, new):
    """would the edit create or split a CR LF pair across its boundaries?"""
    left = text[a - 1:a]
    right = text[b:b + 1]
    first = new[:1] if new else right
    last = new[-1:] if new else left
    if left == "\r" and first == "\n":
        return True
    if last == "\r" and right == "\n":
        return True
    # splitting an existing pair: a or b in the middle of \r\n cannot happen with line/col positions
    return False


def shape(change, lines):
    t = change["text"]
    kinds = "".join(sorted(set(BRK.findall(t)))).replace("\r", "R").replace("\n", "N")
    r = change.get("range")
    if r is None:
        return ("full", kinds, len(t) == 0, t[-1:] in ("\n", "\r"))
    s, e = r["start"], r["end"]
    nl = len(lines)
    return ("rng", min(e["line"] - s["line"], 3), s == e, kinds, min(t.count("\n") + t.count("\r"), 4),
            t[-1:] in ("\n", "\r"), t[:1] in ("\n", "\r"), s["character"] == 0, e["character"] == len(lines[e["line"]]),
            s["line"] == nl - 1, e["line"] == nl - 1, len(t) == 0)


def run_case(ctx, i, rng):
    res = Result()
    samples = ctx.cache.get("samples")
    if samples is None:
        samples = ctx.cache["samples"] = [(p, t) for p, t in free_samples() if len(t) < 20000]
    incremental = rng.random() < 0.8
    astral = rng.random() < 0.05  # separate class: non-BMP characters, positions sent in UTF-16 code units as the protocol prescribes
    brk_kinds = rng.choice([["\n"], ["\r\n"], ["\n", "\r\n"], ["\n", "\r\n", "\r"], ["\r"]])
    file_brk = rng.choice(["\n", "\r\n"])
    init = gen_initial(rng, samples)
    if astral:
        init = "".join((c + "😀" if c == "=" and rng.random() < 0.5 else c) for c in init) or "x = '😀'\n"
    disk = init.replace("\n", file_brk)
    name = rng.choice(["doc.f90", "doc.F90", "sub/doc.f95"])
    with H.Workspace({name: disk}) as ws:
        srv = H.Server(["--incremental_sync"] if incremental else [])
        srv.initialize(ws.root)
        uri = ws.uri(name)
        path = ws.path(name)
        client = disk
        if not astral and rng.random() < 0.2:
            # the editor opens the document with text that is not what is on disk (a restored, unsaved buffer): its text counts
            client = apply_ref(disk, {"range": rand_range(rng, lines_of(disk)), "text": gen_text(rng, brk_kinds)}) if rng.random() < 0.7 else gen_initial(rng, samples)
            res.kind("event:open-with-unsaved-text")
        srv.did_open(uri, client)
        opened_with = client
        history = []
        got = srv.lines_of(path)
        if got != lines_of(client):
            res.violation("open:buffer-differs-from-client-text", "buffer after didOpen differs from the text the client sent" + ("" if client == disk else " (which is not the file content)"),
                          {"disk": disk, "client": client, "server": got})
            return res
        nnotif = rng.randint(1, 12)
        saved = disk
        for _ in range(nnotif):
            if not astral and rng.random() < 0.15:
                # session boundary: save, or close without saving (the buffer is discarded) and open again: the document is what is on disk
                if rng.random() < 0.4:
                    ws.write(name, client)
                    srv.did_save(uri)
                    saved = client
                    history.append({"event": "save", "text": client})
                    res.kind("event:save")
                else:
                    srv.did_close(uri)
                    srv.did_open(uri, saved)
                    client = saved
                    history.append({"event": "close-reopen"})
                    res.kind("event:close-without-saving-then-open")
                res.count("evaluations")
                got = srv.lines_of(path)
                if got != lines_of(client):
                    res.violation("session:buffer-differs-after-" + history[-1]["event"], f"after {history[-1]['event']} the server holds {len(got or [])} lines, the client {len(lines_of(client))}",
                                  {"file": name, "initial": disk, "opened_with": opened_with, "history": history, "incremental": incremental})
                    return res
                continue
            changes = []
            work = client
            nch = rng.choice([1, 1, 1, 2, 3])  # with full sync every change is a whole text and the last one is current
            for _ in range(nch):
                lines = lines_of(work)
                for _attempt in range(20):
                    if not incremental or rng.random() < 0.06:
                        # whole-document change
                        if rng.random() < 0.5:
                            newt = gen_initial(rng, samples).replace("\n", rng.choice(brk_kinds))
                        else:
                            newt = apply_ref(work, {"range": rand_range(rng, lines), "text": gen_text(rng, brk_kinds)})
                        ch = {"text": newt}
                        break
                    r = rand_range(rng, lines)
                    newt = gen_text(rng, brk_kinds)
                    offs = offsets(work)
                    a = offs[r["start"]["line"]] + r["start"]["character"]
                    b = offs[r["end"]["line"]] + r["end"]["character"]
                    if crlf_ambiguous(work, a, b, newt):
                        res.count("skipped_crlf_ambiguous")
                        continue
                    ch = {"range": r, "text": newt}
                    if rng.random() < 0.3:
                        ch["rangeLength"] = b - a
                    break
                else:
                    ch = {"range": {"start": {"line": 0, "character": 0}, "end": {"line": 0, "character": 0}}, "text": ""}
                res.seen(*shape(ch, lines))
                changes.append(ch)
                work = apply_ref(work, ch)
            history.append(changes)
            wire = changes
            if astral:
                wire = []
                tmp = client
                for ch_ in changes:
                    if ch_.get("range") is not None:
                        ls_ = lines_of(tmp)

                        def u16(pos):
                            pre = ls_[pos["line"]][:pos["character"]]
                            return {"line": pos["line"], "character": len(pre.encode("utf-16-le")) // 2}
                        wire.append(dict(ch_, range={"start": u16(ch_["range"]["start"]), "end": u16(ch_["range"]["end"])}))
                    else:
                        wire.append(ch_)
                    tmp = apply_ref(tmp, ch_)
            ev = srv.did_change(uri, wire)
            client = work
            res.count("evaluations", len(changes))
            res.count("notifications")
            res.kind("sync:" + ("incremental" if incremental else "full"))
            if astral:
                res.kind("class:astral")
            for e in ev:
                if e[0] == "notif" and e[1] == "window/showMessage" and "Could not apply" in str(e[2].get("message")):
                    res.violation("astral:utf16-columns-after-non-bmp-character" if astral else "change:rejected", "server could not apply an in-range change: " + str(e[2].get("message")),
                                  {"initial": disk, "history": history})
                    return res
            got = srv.lines_of(path)
            want = lines_of(client)
            fobj = srv.ls.workspace.get(path)
            if got != want or fobj.nLines != len(want):
                # classify by the shape of the last notification's changes
                last = changes[-1]
                t = last["text"]
                if astral:
                    key = "astral:utf16-columns-after-non-bmp-character"
                elif last.get("range") is None:
                    key = "full-sync:text-mismatch"
                elif t[-1:] in ("\n", "\r"):
                    key = "insert-ending-in-linebreak:line-count" if len(got) != len(want) else "insert-ending-in-linebreak:content"
                elif len(got) != len(want):
                    key = "ranged-edit:line-count"
                else:
                    key = "ranged-edit:content"
                # first differing line
                d = next((k for k in range(min(len(got), len(want))) if got[k] != want[k]), min(len(got), len(want)))
                res.violation(key, f"after {len(history)} notification(s) server holds {len(got)} lines, client {len(want)}; "
                              f"first difference at line {d}: server={got[d:d+1]!r} client={want[d:d+1]!r}; last change={last!r}",
                              {"file": name, "initial": disk, "opened_with": opened_with, "history": history, "incremental": incremental})
                return res
        # end-to-end: every outline entry must address an existing client line
        r = srv.request("textDocument/documentSymbol", {"textDocument": {"uri": uri}})
        if r[0] == "resp" and isinstance(r[2], list):
            nl = len(lines_of(client))
            for sym in r[2]:
                rg = sym.get("location", {}).get("range", {})
                res.count("outline_entries_checked")
                if not (0 <= rg.get("start", {}).get("line", 0) < nl):
                    res.violation("outline:line-outside-client-document", f"symbol {sym.get('name')} at {rg} but client has {nl} lines",
                                  {"file": name, "initial": disk, "opened_with": opened_with, "history": history, "incremental": incremental})
        res.sample({"initial": disk[:200], "first_changes": history[:2], "incremental": incremental}, limit=1)
    return res


def rand_range(rng, lines):
    s = pick_pos(rng, lines)
    r = rng.random()
    if r < 0.35:
        e = s
    else:
        e = pick_pos(rng, lines, lo=s)
        if e < s:
            e = s
    return {"start": {"line": s[0], "character": s[1]}, "end": {"line": e[0], "character": e[1]}}


def replay(ctx, w):
    res = Result()
    with H.Workspace({w["file"]: w["initial"]}) as ws:
        srv = H.Server(["--incremental_sync"] if w.get("incremental") else [])
        srv.initialize(ws.root)
        uri, path = ws.uri(w["file"]), ws.path(w["file"])
        srv.did_open(uri, w.get("opened_with", w["initial"]))
        client = w.get("opened_with", w["initial"])
        saved = w["initial"]
        for n, changes in enumerate(w["history"]):
            if isinstance(changes, dict):
                if changes["event"] == "save":
                    ws.write(w["file"], client)
                    srv.did_save(uri)
                    saved = client
                else:
                    srv.did_close(uri)
                    srv.did_open(uri, saved)
                    client = saved
                if srv.lines_of(path) != lines_of(client):
                    res.violation("session:buffer-differs-after-" + changes["event"], f"after event {n + 1}", w)
                    break
                continue
            for ch in changes:
                client = apply_ref(client, ch)
            srv.did_change(uri, changes)
            got, want = srv.lines_of(path), lines_of(client)
            if got != want:
                res.violation("replayed", f"after notification {n + 1}: server {got!r} != client {want!r}", w)
                break
    return res
