"""C01 — one response per request, in order; the server outlives any handler failure.

Online monitor automaton over the event trace of a session (inputs consumed by the real run() loop, outputs
written to the connection), in-process with fault injection, and over the byte stream of a real subprocess.
"""
import json
import os
import time

from vf.core import Result
from vf import harness as H
from vf import gen_texts as G
from vf.corpus import sample_sources

PROP = "C01"
LEVEL = "exploration"
META = {
    "engine": "trace-monitor",
    "technique": "runtime monitor: online protocol automaton over recorded request/response traces of random sessions driven through the real run() loop with injected handler faults, plus a strict byte-level reader on a real subprocess",
    "text": "Random sessions (known, unknown and parameter-malformed methods, sync events, repeated/missing initialize, requests after shutdown, int and string ids) are fed through the real LangServer.run loop while exceptions are injected at named internals; a monitor automaton checks every trace: one response per request with its id before the next input is consumed, silence on notifications, -32601 for unknown methods, -32603 for handler failures, strict-JSON payloads, loop alive until exit and a final probe answered. A subset of sessions runs against a real subprocess over pipes with our own framer. Sessions are sampled. Half of the in-process sessions write through the server's own JSONRPC2Connection into a byte buffer read back by a strict reader; injected exceptions include empty, multi-line, non-ASCII and very long messages.",
    "note": "trusted: the monitor automaton and our LSP framer; well-formed JSON-RPC only (method present, non-negative/str ids, no batches); injected faults are Exception subclasses raised inside handlers",
}
RULE = ("sessions of 5-60 messages over a 2-4 file workspace (some files broken): every handled method with well-formed and malformed params, unknown "
        "methods as request and notification, didOpen/didChange/didSave/didClose incl. unknown or deleted files, initialize first/repeated/missing, "
        "shutdown followed by more requests; fault injection: k-th call of get_definition/get_code_line/find_in_scope/parse/check_file/apply_change/"
        "get_diagnostics raises ValueError/KeyError/RecursionError/UnicodeError/custom; evaluations = messages fed; distinct = (method, param-shape, outcome) "
        "triples and whole-session fingerprints")
ASSUME = ["ids are unique per session and never negative", "batches and client responses are outside the quantifier",
          "window/showMessage and publishDiagnostics notifications are allowed at any time"]

KNOWN = ["initialize", "textDocument/documentSymbol", "textDocument/completion", "textDocument/signatureHelp", "textDocument/definition",
         "textDocument/references", "textDocument/documentHighlight", "textDocument/hover", "textDocument/implementation", "textDocument/rename",
         "textDocument/didOpen", "textDocument/didSave", "textDocument/didClose", "textDocument/didChange", "textDocument/codeAction", "initialized",
         "workspace/didChangeWatchedFiles", "workspace/didChangeConfiguration", "workspace/symbol", "$/cancelRequest", "$/setTrace", "shutdown", "exit"]
UNKNOWN = ["foo/bar", "textDocument/willSave", "$/x", "", "textDocument/formatting", "workspace/executeCommand", "Initialize", "textDocument/hover ",
           "window/workDoneProgress/cancel", "exit2", "textDocument/semanticTokens/full"]
POSITIONAL = H.POSITIONAL


def plan(tier):
    if tier == "quick":
        return {"ncases": 1000, "nshards": 16, "budget_s": 75, "floor": 8000, "stall_s": 60}
    return {"ncases": 60000, "nshards": 16, "budget_s": 1800, "floor": 300000, "stall_s": 240}


class Injected(Exception):
    """custom exception with non-string args (picklable: it may be raised inside a pool worker)"""


FAULTS = [ValueError(""), KeyError(), Exception(), ValueError("first line\nsecond line"), RuntimeError("non-ascii \u00e9 \U0001F600 message"), ValueError("x" * 70000),
          ValueError("injected"), KeyError("injected"), RecursionError("injected"), UnicodeDecodeError("utf-8", b"\xff", 0, 1, "injected"),
          Injected({"not": "a string"}, 3), AttributeError("injected"), IndexError("injected"), TypeError("injected"), OSError("injected"), ZeroDivisionError("injected")]


class FaultPoint:
    """raise `exc` on calls number n0, n0+step, ... of obj.attr"""

    def __init__(self, obj, attr, n0, step, exc):
        self.obj, self.attr, self.n0, self.step, self.exc = obj, attr, n0, step, exc
        self.calls = 0
        self.fired = 0
        self.orig = getattr(obj, attr)
        fp = self

        def wrapper(*a, **k):
            fp.calls += 1
            if fp.calls >= fp.n0 and (fp.calls - fp.n0) % fp.step == 0:
                fp.fired += 1
                raise fp.exc
            return fp.orig(*a, **k)

        self.wrapper = wrapper
        setattr(obj, attr, wrapper)

    def remove(self):
        setattr(self.obj, self.attr, self.orig)


class TraceConn(H.Recorder):
    """connection whose read side is scripted; records one trace of inputs and outputs"""

    def __init__(self, script):
        super().__init__()
        self.script = list(script)
        self.trace = []

    def read_message(self):
        if not self.script:
            raise EOFError()
        m = self.script.pop(0)
        self.trace.append(("in", m))
        return m

    def write_response(self, rid, result):
        json.dumps({"jsonrpc": "2.0", "id": rid, "result": result})  # the real connection serialises here
        self.trace.append(("resp", rid, result))

    def write_error(self, rid, code, message, data=None):
        json.dumps({"jsonrpc": "2.0", "id": rid, "error": {"code": code, "message": message, "data": data}})
        self.trace.append(("err", rid, code, message, data))

    def send_notification(self, method, params):
        json.dumps({"jsonrpc": "2.0", "method": method, "params": params})
        self.trace.append(("notif", method, params))


class RealWriteConn:
    """scripted read side, REAL write side: responses, errors and notifications go through fortls' own JSONRPC2Connection (framing and
    serialisation included) into a byte buffer, which our strict reader turns back into trace events at every read and at the end"""

    def __init__(self, script):
        import io
        from fortls.jsonrpc import JSONRPC2Connection, ReadWriter
        self.buf = io.BytesIO()
        self.real = JSONRPC2Connection(ReadWriter(io.BytesIO(b""), self.buf))
        self.script = list(script)
        self.trace = []
        self.pos = 0
        self.framing_errors = []

    def drain(self):
        from vf.dsub import parse_stream
        data = self.buf.getvalue()[self.pos:]
        msgs, rest, errs = parse_stream(data)
        self.pos += len(data) - len(rest)
        self.framing_errors += errs
        for m in msgs:
            if "method" in m:
                self.trace.append(("notif", m["method"], m.get("params")))
            elif "error" in m:
                e = m["error"] if isinstance(m["error"], dict) else {}
                self.trace.append(("err", m.get("id"), e.get("code"), e.get("message"), e.get("data")))
            else:
                self.trace.append(("resp", m.get("id"), m.get("result")))

    def read_message(self):
        self.drain()
        if not self.script:
            raise EOFError()
        m = self.script.pop(0)
        self.trace.append(("in", m))
        return m

    def write_response(self, rid, result):
        return self.real.write_response(rid, result)

    def write_error(self, rid, code, message, data=None):
        return self.real.write_error(rid, code, message, data)

    def send_notification(self, method, params):
        return self.real.send_notification(method, params)

    def send_request(self, *a, **k):
        return None


def monitor(trace, res, witness, fault_desc):
    """the protocol automaton; returns number of violations found"""
    pending = None  # (id, method)
    nv = 0

    def viol(key, what):
        nonlocal nv
        nv += 1
        res.violation(key, what, dict(witness, fault=fault_desc))

    for n, ev in enumerate(trace):
        if ev[0] == "in":
            if pending is not None:
                viol("request-unanswered", f"request id={pending[0]!r} method={pending[1]!r} got no response before the next message was consumed")
            m = ev[1]
            pending = (m["id"], m.get("method")) if "id" in m else None
            res.kind("in:" + ("request" if "id" in m else "notification"))
        elif ev[0] in ("resp", "err"):
            rid = ev[1]
            if pending is None:
                viol("response-without-request" if not isinstance(rid, int) or rid >= 0 else "response-with-invented-id",
                     f"response (id={rid!r}) emitted while no request is pending (event {n})")
                continue
            if rid != pending[0] or type(rid) is not type(pending[0]):
                viol("response-id-mismatch", f"response id {rid!r} for pending request id {pending[0]!r}")
            method = pending[1]
            if ev[0] == "err":
                code = ev[2]
                res.kind(f"out:error{code}")
                if method in UNKNOWN or method not in KNOWN:
                    if code != -32601:
                        viol("unknown-method-wrong-code", f"unknown method {method!r} answered with error code {code}")
                elif code != -32603:
                    viol("handler-failure-wrong-code", f"known method {method!r} failed with error code {code} (expected -32603)")
                if not isinstance(ev[3], str):
                    viol("error-message-not-string", f"error.message is {type(ev[3]).__name__}")
                payload = {"code": code, "message": ev[3], "data": ev[4]}
            else:
                res.kind("out:result")
                if method in UNKNOWN:
                    viol("unknown-method-answered-with-result", f"unknown method {method!r} got a result")
                payload = ev[2]
            try:
                json.loads(json.dumps(payload, allow_nan=False))
            except (TypeError, ValueError) as e:
                viol("payload-not-strict-json", f"response payload for {method!r}: {e}")
            pending = None
        elif ev[0] == "notif":
            try:
                json.loads(json.dumps(ev[2], allow_nan=False))
            except (TypeError, ValueError) as e:
                viol("payload-not-strict-json", f"notification {ev[1]!r}: {e}")
            if not isinstance(ev[1], str):
                viol("notification-method-not-string", repr(ev[1]))
            res.kind("out:notif:" + str(ev[1]).split("/")[-1])
    if pending is not None:
        viol("request-unanswered", f"last request id={pending[0]!r} method={pending[1]!r} got no response")
    return nv


# ------------------------------------------------------------------------------------------------
# session generator


BROKEN = ["module m\n contains\n subroutine s(\n", "program p\n  integer :: i\n  i = = 1\n end\nend\n", "#if X\nmodule q\n#else\n", "subroutine a\nend subroutine b\n  procedure :: x\n"]


def gen_workspace(rng):
    files = {}
    smp = [(p, t) for p, t in sample_sources() if len(t) < 6000 and isinstance(t, str)]
    for k in range(rng.randint(2, 4)):
        r = rng.random()
        if r < 0.6:
            p, t = rng.choice(smp)
            files[f"w{k}" + os.path.splitext(p)[1]] = t
        elif r < 0.8:
            files[f"w{k}.f90"] = rng.choice(BROKEN)
        else:
            files[f"w{k}.F90"] = G.token_soup(rng, 40)
    return files


def bad_params(rng, uri):
    return rng.choice([None, [], 5, "x", {}, {"textDocument": None}, {"textDocument": {}}, {"textDocument": {"uri": 5}},
                       {"textDocument": {"uri": uri}}, {"textDocument": {"uri": uri}, "position": None},
                       {"textDocument": {"uri": uri}, "position": {"line": "1", "character": "x"}},
                       {"textDocument": {"uri": uri}, "position": {"line": 10 ** 9, "character": 10 ** 9}},
                       {"textDocument": {"uri": uri}, "position": {"line": 0}},
                       {"textDocument": {"uri": "http://example.com/x.f90"}, "position": {"line": 0, "character": 0}},
                       {"textDocument": {"uri": "file:///nonexistent/zz.f90"}, "position": {"line": 0, "character": 0}},
                       {"textDocument": {"uri": uri}, "contentChanges": None}, {"textDocument": {"uri": uri}, "contentChanges": []},
                       {"textDocument": {"uri": uri}, "contentChanges": [{}]}, {"textDocument": {"uri": uri}, "contentChanges": [{"text": None}]},
                       {"textDocument": {"uri": uri}, "contentChanges": [{"range": {"start": {"line": 99999, "character": 0}, "end": {"line": 99999, "character": 5}}, "text": "x"}]},
                       {"query": None}, {"query": 5}, {"rootPath": 5}, {"rootUri": "file:///nonexistent-dir-zz"}, "MISSING"])


def gen_session(rng, ws, files):
    msgs = []
    ids = iter(range(1, 10 ** 6))
    used = set()

    def new_id():
        n = next(ids)
        r = rng.random()
        if r < 0.7:
            return n
        if r < 0.9:
            return f"s-{n}"
        return rng.choice([f"é{n}", f"{n}", 0 if 0 not in used and not used.add(0) else n * 1000])

    def req(method, params="MISSING", notif=False):
        m = {"jsonrpc": "2.0", "method": method}
        if params != "MISSING":
            m["params"] = params
        if not notif:
            m["id"] = new_id()
        msgs.append(m)

    names = list(files)
    uris = [ws.uri(n) for n in names] + [ws.uri("ghost.f90")]
    r0 = rng.random()
    if r0 < 0.85:
        req("initialize", {"rootPath": ws.root, "capabilities": {}})
        if rng.random() < 0.7:
            req("initialized", {}, notif=True)
    n = rng.randint(5, 60)
    for _ in range(n):
        uri = rng.choice(uris)
        fname = names[uris.index(uri)] if uri in uris[:-1] else None
        text = files.get(fname, "")
        lines = text.split("\n") if isinstance(text, str) else [""]
        ln = rng.randrange(len(lines))
        ch = rng.randint(0, len(lines[ln]))
        r = rng.random()
        if r < 0.34:
            method = rng.choice(POSITIONAL)
            p = {"textDocument": {"uri": uri}, "position": {"line": ln, "character": ch}}
            if method.endswith("rename"):
                p["newName"] = "nn"
            if method.endswith("codeAction"):
                p = {"textDocument": {"uri": uri}, "range": {"start": {"line": ln, "character": 0}, "end": {"line": ln, "character": ch}}, "context": {"diagnostics": []}}
            req(method, p, notif=rng.random() < 0.05)
        elif r < 0.42:
            req(rng.choice(["textDocument/documentSymbol", "workspace/symbol"]), rng.choice([{"textDocument": {"uri": uri}, "query": rng.choice(["", "a", "zz"])}]))
        elif r < 0.56:
            req(rng.choice(KNOWN[:20]), bad_params(rng, uri), notif=rng.random() < 0.3)
        elif r < 0.66:
            req(rng.choice(UNKNOWN), rng.choice([{}, None, [], {"textDocument": {"uri": uri}}, "MISSING"]), notif=rng.random() < 0.4)
        elif r < 0.9:
            kind = rng.choice(["didOpen", "didChange", "didChange", "didSave", "didClose"])
            if kind == "didChange":
                if rng.random() < 0.5:
                    ch_ = {"text": rng.choice([text if isinstance(text, str) else "", G.token_soup(rng, 20), ""])}
                else:
                    ch_ = {"range": {"start": {"line": ln, "character": ch}, "end": {"line": ln, "character": ch}}, "text": rng.choice(["x", "\n", "end\n", "(", " ! c"])}
                req("textDocument/didChange", {"textDocument": {"uri": uri, "version": 2}, "contentChanges": [ch_]}, notif=rng.random() < 0.93)
            else:
                req("textDocument/" + kind, {"textDocument": {"uri": uri, "text": text if isinstance(text, str) else ""}}, notif=rng.random() < 0.93)
        elif r < 0.94:
            req("initialize", {"rootPath": ws.root})
        elif r < 0.97:
            req("shutdown", None)
        else:
            req(rng.choice(["$/cancelRequest", "$/setTrace", "workspace/didChangeConfiguration", "workspace/didChangeWatchedFiles", "initialized"]),
                rng.choice([{"id": 1}, {}, None]), notif=rng.random() < 0.7)
    # probe + exit
    probe = {"jsonrpc": "2.0", "id": "probe-final", "method": "workspace/symbol", "params": {"query": ""}}
    msgs.append(probe)
    msgs.append({"jsonrpc": "2.0", "method": "exit"})
    return msgs


def fault_targets():
    import fortls.langserver as L
    from fortls.parsers.internal.parser import FortranFile
    from fortls.parsers.internal import utilities as U
    return [(L.LangServer, "get_definition"), (FortranFile, "get_code_line"), (L, "find_in_scope"), (U, "find_in_scope"), (FortranFile, "parse"),
            (FortranFile, "check_file"), (FortranFile, "apply_change"), (L.LangServer, "get_diagnostics"), (L.LangServer, "update_workspace_file"),
            (L, "climb_type_tree"), (L, "get_line_context"), (L.LangServer, "send_diagnostics"), (FortranFile, "load_from_disk"),
            (L.LangServer, "post_message"), (L, "path_from_uri")]


def shape_of(m):
    p = m.get("params", "MISSING")
    if isinstance(p, dict):
        return "dict:" + ",".join(sorted(p.keys()))
    return type(p).__name__ if p != "MISSING" else "missing"


def run_inproc(ctx, i, rng, res):
    files = gen_workspace(rng)
    with H.Workspace(files) as ws:
        msgs = gen_session(rng, ws, files)
        args = ["--incremental_sync"] if rng.random() < 0.5 else []
        if rng.random() < 0.3:
            args.append("--enable_code_actions")
        settings = vars(H.cli("fortls").parse_args(args + ["--disable_autoupdate", "--nthreads", "1"]))
        real = rng.random() < 0.5
        conn = RealWriteConn(msgs) if real else TraceConn(msgs)
        srv = H.LangServer(conn, settings)
        fps = []
        fault_desc = None
        if rng.random() < 0.6:
            tg = fault_targets()
            for _ in range(rng.choice([1, 1, 2])):
                obj, attr = rng.choice(tg)
                if attr == "post_message" and rng.random() < 0.7:
                    continue
                exc = rng.choice(FAULTS)
                fps.append(FaultPoint(obj, attr, rng.randint(1, 12), rng.choice([1, 2, 3, 7]), exc))
            fault_desc = [(getattr(f.obj, "__name__", str(f.obj)), f.attr, f.n0, f.step, type(f.exc).__name__) for f in fps]
        witness = {"files": {k: (v if isinstance(v, str) else repr(v)) for k, v in files.items()}, "messages": msgs[:], "args": args}
        ctx.mark({"route": "inproc", "fault": fault_desc, **witness})
        try:
            srv.run()
        except BaseException as e:  # the loop itself must not die
            res.violation(f"run-loop-raised:{type(e).__name__}", f"LangServer.run raised {e!r}", dict(witness, fault=fault_desc))
        finally:
            for f in fps:
                f.remove()
        if real:
            conn.drain()
            res.kind("conn:real-writer")
            for e in conn.framing_errors[:1]:
                res.violation("real-writer:framing", e, dict(witness, fault=fault_desc))
            if conn.buf.getvalue()[conn.pos:]:
                res.violation("real-writer:trailing-bytes", f"{len(conn.buf.getvalue()) - conn.pos} bytes after the last complete message", dict(witness, fault=fault_desc))
        res.count("evaluations", len(msgs))
        res.count("faults_fired", sum(f.fired for f in fps))
        for f in fps:
            if f.fired:
                res.kind(f"fault:{f.attr}:{type(f.exc).__name__}")
        if conn.script:
            res.violation("server-stopped-before-exit", f"run() returned with {len(conn.script)} messages unread; last consumed: "
                          f"{[e[1].get('method') for e in conn.trace if e[0] == 'in'][-1:]}; trace tail {H.jdump(conn.trace[-3:], 400)}",
                          dict(witness, fault=fault_desc))
        elif srv.running:
            res.violation("still-running-after-exit", "running flag still set after exit was handled", dict(witness, fault=fault_desc))
        monitor(conn.trace, res, witness, fault_desc)
        for m in msgs:
            out = "?"
            res.seen(m.get("method"), shape_of(m), "id" in m)
        res.seen("session", json.dumps([(m.get("method"), shape_of(m)) for m in msgs]))
        if i % 200 == 0:
            res.sample({"messages": [{"method": m.get("method"), "id": m.get("id", None), "params": shape_of(m)} for m in msgs[:12]], "fault": fault_desc}, limit=1)


def run_subproc(ctx, i, rng, res):
    """the same automaton over the bytes of a real process"""
    from vf.dsub import SubServer
    files = gen_workspace(rng)
    with H.Workspace(files) as ws:
        msgs = gen_session(rng, ws, files)
        witness = {"route": "subprocess", "files": {k: (v if isinstance(v, str) else repr(v)) for k, v in files.items()}, "messages": msgs[:]}
        ctx.mark(witness)
        srv = SubServer(["--disable_autoupdate", "--nthreads", "2", "--incremental_sync"])
        trace = []
        try:
            for m in msgs[:-1]:
                trace.append(("in", m))
                n0 = len(srv.msgs)
                if "id" in m:
                    srv.send(m)
                    r = srv.wait_for(lambda x, rid=m["id"]: "method" not in x and x.get("id") == rid, timeout=30)
                    if r is None and not srv.alive():
                        res.violation("subprocess:server-died-before-exit", f"process ended (rc={srv.p.poll()}) after request {m.get('method')!r}", witness)
                        break
                else:
                    srv.send(m)
                    srv.pump(0.02)
                for o in srv.msgs[n0:]:
                    trace.append(to_event(o, res, witness))
            # let late output of the last notification arrive, then order check is per request (synchronous client)
            alive_before_exit = srv.alive()
            rc = srv.finish(timeout=15)
            for o in srv.msgs[len([t for t in trace if t[0] != "in"]):]:
                trace.append(to_event(o, res, witness))
            if not alive_before_exit:
                res.violation("subprocess:server-died-before-exit", f"process not alive before exit was sent (rc={rc})", witness)
            elif rc is None:
                res.violation("subprocess:no-exit-after-exit", "process did not terminate within 15 s after exit", witness)
            elif rc != 0:
                res.violation("subprocess:nonzero-exit-code", f"exit code {rc}", witness)
            for e in srv.errors:
                res.violation("subprocess:framing", e, witness)
        finally:
            srv.kill()
        res.count("evaluations", len(msgs))
        res.count("subprocess_sessions")
        # a synchronous client: notifications may produce late showMessage, never responses
        monitor([t for t in trace if t is not None], res, witness, None)
        res.seen("subsession", json.dumps([(m.get("method"), shape_of(m)) for m in msgs]))


def to_event(o, res, witness):
    if "method" in o and "id" not in o:
        return ("notif", o["method"], o.get("params"))
    has_r, has_e = "result" in o, "error" in o
    if has_r == has_e:
        res.violation("response-needs-exactly-one-of-result-error", H.jdump(o, 300), witness)
    if o.get("jsonrpc") != "2.0":
        res.violation("response-without-jsonrpc-2.0", H.jdump(o, 200), witness)
    if has_e:
        e = o["error"] or {}
        return ("err", o.get("id"), e.get("code"), e.get("message"), e.get("data"))
    return ("resp", o.get("id"), o.get("result"))


def run_case(ctx, i, rng):
    res = Result()
    nsub = 3 if ctx.tier == "quick" else 40
    if i % 16 == 15 and (i // 16) % max(1, (plan(ctx.tier)["ncases"] // 16) // nsub) == 0:
        run_subproc(ctx, i, rng, res)
    else:
        run_inproc(ctx, i, rng, res)
    return res


def on_stuck(i, why, tail, mark):
    return {"key": "hang:" + str((mark or {}).get("route")), "what": f"session {i} did not terminate ({why}); {tail[-500:]}", "witness": mark, "case": i}


def replay(ctx, w):
    res = Result()
    files = w["files"]
    with H.Workspace(files) as ws:
        # re-root the URIs of the recorded session
        old_root = None
        for m in w["messages"]:
            p = m.get("params")
            if isinstance(p, dict) and isinstance(p.get("rootPath"), str):
                old_root = p["rootPath"]
        txt = json.dumps(w["messages"])
        if old_root:
            txt = txt.replace(old_root, ws.root)
        msgs = json.loads(txt)
        settings = vars(H.cli("fortls").parse_args(w.get("args", []) + ["--disable_autoupdate", "--nthreads", "1"]))
        conn = TraceConn(msgs)
        srv = H.LangServer(conn, settings)
        fps = []
        tg = {(getattr(o, "__name__", str(o)), a): (o, a) for o, a in fault_targets()}
        for f in w.get("fault") or []:
            o, a = tg[(f[0], f[1])]
            exc = next(e for e in FAULTS if type(e).__name__ == f[4])
            fps.append(FaultPoint(o, a, f[2], f[3], exc))
        try:
            srv.run()
        except BaseException as e:
            res.violation("replayed", f"run raised {e!r}", w)
        finally:
            for f in fps:
                f.remove()
        if conn.script:
            res.violation("replayed", f"server stopped with {len(conn.script)} messages unread", w)
        monitor(conn.trace, res, {"replay": True}, w.get("fault"))
    return res
