"""C13 — the index is invariant under meaning-preserving re-layout of the source (metamorphic).

dump(P) = outline (lower-cased names, kinds, containers, lines), definition target of every identifier occurrence,
diagnostics (severity, line, message with identifiers lower-cased).  For a composition T of layout transformations
dump(T(P)) must equal dump(P) modulo T's line map.  No model of fortls is needed.
"""
import os
import re

from vf.core import Result
from vf import harness as H
from vf import layout as LY
from vf import model as M
from vf.corpus import sample_sources

PROP = "C13"
LEVEL = "exploration"
META = {
    "engine": "differential",
    "technique": "runtime monitor: metamorphic comparison of the real server's outline / definition targets / diagnostics before and after compositions of meaning-preserving layout transformations (line endings, trailing blanks, comments, blank lines, letter case, & continuation splitting, ; joining) on samples and generated programs",
    "text": "Each free-form sample source (inside its full sample workspace), generated multi-file programs and hand-written extra subjects (operator/assignment interfaces and bindings, user-defined operators, shared DO label) are indexed twice, as given and after 1-5 composed layout transformations applied at random statements by a token-level Fortran lexer that keeps a line/token map; outline entries, the definition target of every identifier occurrence and diagnostics must be identical modulo the map. Sampled (program, transformation) pairs. A third class joins arbitrary statements with ';' (nothing split): outline and diagnostics are compared with raw keys. Member lists offered after % are compared as multisets.",
    "note": "trusted: the lexer/transformer (strings, comments, preprocessor lines, INCLUDE paths and already-continued statements are left untouched); case changes are not applied to preprocessed files; ; joining is not applied to lines with character literals; documentation comments are never moved",
}
RULE = ("(program, T) pairs: programs = free-form tab-free repository samples (indexed inside the sample workspace) and generated model workspaces; T = composition of 1-5 of "
        "{LF/CRLF/CR endings, trailing blanks, added comments, inserted blank lines, upper/lower/mixed case, & splitting, ; joining}; evaluations = compared items "
        "(outline entries + definition queries + diagnostics); distinct = (program, T, item) fingerprints")
ASSUME = ["free-form sources without TAB characters", "transformations are applied to statements the lexer fully tokenises"]

OPS = ["trail", "comments", "blanks", "case-upper", "case-lower", "case-mixed", "split", "join"]


def plan(tier):
    if tier == "quick":
        return {"ncases": 1600, "nshards": 16, "budget_s": 75, "floor": 40000, "stall_s": 60}
    return {"ncases": 16000, "nshards": 16, "budget_s": 1800, "floor": 1000000, "stall_s": 300}


def norm_msg(m):
    return re.sub(r'"[^"]*"', lambda x: x.group().lower(), m).lower()


def take_dump(files, target, queries, args=None, member_queries=None):
    """-> dict(outline=[(name, kind, container, sline, eline)], defs={query: (file, line, name-at-target)}, diags=[(sev, line, msg)])"""
    ws, srv, ev = H.start(files, args=args, nthreads=2)
    try:
        uri = ws.uri(target)
        srv.did_open(uri)
        r = srv.request("textDocument/documentSymbol", {"textDocument": {"uri": uri}})
        outline = None
        if r[0] == "resp" and isinstance(r[2], list):
            outline = sorted((s["name"].lower(), s["kind"], (s.get("containerName") or "").lower(), s["location"]["range"]["start"]["line"], s["location"]["range"]["end"]["line"]) for s in r[2])
        defs = {}
        lines_cache = {}
        for key, (ln, col) in queries.items():
            r = srv.request("textDocument/definition", srv.pos(uri, ln, col))
            if r[0] == "err":
                defs[key] = ("ERROR", str(r[3])[:60])
            elif r[0] == "resp" and isinstance(r[2], dict):
                f = os.path.relpath(H.path_from_uri(r[2]["uri"]), ws.root)
                rg = r[2]["range"]
                if f not in lines_cache:
                    lines_cache[f] = srv.lines_of(ws.path(f)) or open(ws.path(f), encoding="utf-8", errors="replace").read().split("\n")
                tl = lines_cache[f]
                word = tl[rg["start"]["line"]][rg["start"]["character"]:rg["end"]["character"]].lower() if rg["start"]["line"] < len(tl) else ""
                defs[key] = (f, rg["start"]["line"], word)
            else:
                defs[key] = None
        members = {}
        for key, (ln, col) in (member_queries or {}).items():
            r = srv.request("textDocument/completion", srv.pos(uri, ln, col))
            if r[0] == "resp":
                items = r[2] if isinstance(r[2], list) else (r[2] or {}).get("items", []) if isinstance(r[2], dict) else []
                members[key] = tuple(sorted(str(it.get("label", "")).lower() for it in items))
            else:
                members[key] = ("ERROR",)
        d, ev2 = srv.diagnostics(uri)
        diags = sorted((x["severity"], x["range"]["start"]["line"], norm_msg(x["message"])) for x in d) if d is not None else None
        fobj = srv.ls.workspace.get(ws.path(target))
        return {"outline": outline, "defs": defs, "diags": diags, "fixed": getattr(fobj, "fixed", None), "members": members}
    finally:
        ws.close()


def pick_program(ctx, i, rng):
    """-> (files, target, is_preproc)"""
    smp = ctx.cache.get("smp")
    if smp is None:
        allf = {p: t for p, t in sample_sources() if isinstance(t, str)}
        free = [p for p, t in allf.items() if not re.search(r"\.(f|for|ftn|f77)$", p, re.I) and not p.startswith("fixed") and "\t" not in t]
        smp = ctx.cache["smp"] = (allf, sorted(free))
    allf, free = smp
    if i % 16 == 7:
        # hand-written subjects with forms neither the samples nor the model contain (operator/assignment interfaces and bindings, shared DO label)
        from vf.extra_samples import EXTRA
        target = sorted(EXTRA)[(i // 16) % len(EXTRA)]
        return {target: EXTRA[target]}, target, False
    if i % 3 != 2:
        target = free[(i // 3 * 2 + i % 3) % len(free)]
        ext = os.path.splitext(target)[1]
        # the sample tree is not one consistent project (several files define the same top-level names), so each sample is
        # indexed on its own, together with the files of its directory that it INCLUDEs
        d = os.path.dirname(target)
        fs = {target: allf[target]}
        for p, t in allf.items():
            if os.path.dirname(p) == d and re.search(r"include\s*['\"]" + re.escape(os.path.basename(p)), allf[target], re.I):
                fs[p] = t
        return fs, target, ext == ext.upper()
    w = M.gen_workspace(rng, style=None, tight=rng.random() < 0.3)
    return dict(w.files), rng.choice(w.order), False


def run_case(ctx, i, rng):
    res = Result()
    files, target, preproc = pick_program(ctx, i, rng)
    text = files[target]
    lines = LY.lex(text)
    ids = LY.idents(lines)
    if len(ids) > 250:
        ids = rng.sample(ids, 250)
    queries0 = {(ol, oc): (ol, oc) for (_, _, _, ol, oc) in ids}
    # member lists: completion directly after `%` (the position of the member name), at most 25 per program
    olines = text.split("\n")
    mem0 = {k: k for k in queries0 if k[1] > 0 and k[0] < len(olines) and olines[k[0]][:k[1]].rstrip().endswith("%")}
    if len(mem0) > 25:
        mem0 = {k: k for k in rng.sample(sorted(mem0), 25)}
    base = take_dump(files, target, queries0, member_queries=mem0)
    if base["outline"] is None:
        res.inconclusive.append(f"no outline for {target}")
        return res
    ntrans = 3 if ctx.tier == "quick" else 6
    for _ in range(ntrans):
        ops = set(rng.sample(OPS, rng.randint(1, 5)))
        # only one case mode; none for preprocessed files (macro names are case-sensitive)
        cm = [o for o in ops if o.startswith("case-")]
        for o in cm[1:]:
            ops.discard(o)
        if preproc:
            ops = {o for o in ops if not o.startswith("case-")}
        eol = rng.choice(["\n", "\n", "\r\n", "\r"])
        rcls = rng.random()
        hostile = rcls < 0.2
        # join-structural: any statements (scope openers/closers, CONTAINS, IMPLICIT ... too) are joined with `;`, nothing is split: upstream's
        # parser takes such lines apart statement by statement, so the index (outline, diagnostics) must not change; go-to-definition is not
        # compared in this class (line-based request-side context detection is a recorded finding)
        joinstruct = 0.2 <= rcls < 0.4
        if joinstruct:
            ops = (ops - {"split"}) | {"join"}
        elif hostile:
            ops = ops | {"split"}
        lay = LY.render(lines, rng, ops, eol, conservative=not (hostile or joinstruct))
        newfiles = dict(files)
        newfiles[target] = lay.text(eol).encode("utf-8") if eol != "\n" else lay.text(eol)
        res.kind("class:hostile" if hostile else ("class:join-structural" if joinstruct else "class:conservative"))
        tag = ("hostile:" if hostile else ("join-structural:" if joinstruct else "")) + "+".join(sorted(ops) + [{"\n": "lf", "\r\n": "crlf", "\r": "cr"}[eol]])
        queries = {k: lay.pos[k] for k in queries0 if k in lay.pos}
        memq = {k: lay.pos[k] for k in mem0 if k in lay.pos} if not (hostile or joinstruct) else {}
        got = take_dump(newfiles, target, queries, member_queries=memq)
        wit = {"target": target, "ops": sorted(ops), "eol": eol, "original": text, "transformed": lay.text("\n"), "files": {k: v for k, v in files.items() if k != target}}
        res.kind("ops:" + tag.split("+")[0] if ops else "ops:eol-only")
        for o in ops:
            res.kind("op:" + o)
        res.kind("eol:" + repr(eol))
        # line map helpers
        stem = lay.stem
        if base.get("fixed") is False and got.get("fixed") is True:
            res.violation("detect:free-form-layout-classified-as-fixed-form", f"{target} [{tag}]: the re-laid-out free-form text is classified as fixed form (content heuristic)", wit)
            continue

        def back(l):
            return stem[l] if 0 <= l < len(stem) else set()
        # outline
        if got["outline"] is None or len(got["outline"]) != len(base["outline"]):
            res.violation(hostile_key(hostile, ops, f"outline:entry-count:{opkey(ops, eol)}"), f"{target} [{tag}]: {len(base['outline'])} outline entries before, {len(got['outline'] or [])} after: "
                          f"missing {sorted(set(x[:3] for x in base['outline']) - set(x[:3] for x in (got['outline'] or [])))[:4]} extra {sorted(set(x[:3] for x in (got['outline'] or [])) - set(x[:3] for x in base['outline']))[:4]}", wit)
            continue
        bad = False
        used = set()
        for b in base["outline"]:
            res.count("evaluations")
            cand = [n for n, g in enumerate(got["outline"]) if n not in used and g[:3] == b[:3] and b[3] in back(g[3]) and b[4] in back(g[4])]
            if not cand:
                near = [g for g in got["outline"] if g[0] == b[0]]
                res.violation(hostile_key(hostile, ops, f"outline:entry-differs:{opkey(ops, eol)}"), f"{target} [{tag}]: outline entry {b} has no counterpart; same-name entries after T: {[(g, sorted(back(g[3])), sorted(back(g[4]))) for g in near][:3]}", wit)
                bad = True
                break
            used.add(cand[0])
        if bad:
            continue
        # definitions
        for k in (queries if not joinstruct else ()):
            res.count("evaluations")
            res.seen(target, tag, k)
            b, g = base["defs"].get(k), got["defs"].get(k)
            same = False
            if b is None or g is None or b[0] == "ERROR" or g[0] == "ERROR":
                same = (b is None and g is None) or (b is not None and g is not None and b[0] == g[0] == "ERROR")
            elif b[0] == g[0] and b[2] == g[2]:
                same = (b[1] in back(g[1])) if b[0] == target else (b[1] == g[1])
            if not same:
                ol, oc = k
                name = lines_text(lines, ol)[oc:oc + 12]
                nl = queries[k][0]
                key = f"definition-target:{opkey(ops, eol)}"
                if len(stem[nl]) > 1:
                    # the query position is on a line holding several statements joined by `;`
                    key = "request-side:position-on-line-with-semicolon-joined-statements"
                elif sum(1 for st_ in stem if st_ == stem[nl]) > 1:
                    # the statement containing the query position was split over continuation lines
                    key = "request-side:position-in-statement-split-over-continuation-lines"
                res.violation(hostile_key(hostile, ops, key), f"{target} [{tag}]: definition at original {ol}:{oc} ('{name}…') was {b}, after T {g} (new position {queries[k]})", wit)
                bad = True
                break
        if bad:
            continue
        # member lists after `%` (multisets of labels, case-folded): an entry offered twice or lost shows here
        for k in memq:
            res.count("evaluations")
            if len(stem[memq[k][0]]) > 1 or sum(1 for st_ in stem if st_ == stem[memq[k][0]]) > 1:
                continue  # request-side context on joined / split lines is a recorded finding
            if base["members"].get(k) != got["members"].get(k):
                res.violation(f"members:{opkey(ops, eol)}", f"{target} [{tag}]: completion after % at original {k}: before {base['members'].get(k)}, after T {got['members'].get(k)}", wit)
                bad = True
                break
        if bad:
            continue
        # diagnostics
        bd, gd = base["diags"], got["diags"]
        if (bd is None) != (gd is None) or (bd is not None and len(bd) != len(gd)):
            res.violation(hostile_key(hostile, ops, f"diagnostics:count:{opkey(ops, eol)}"), f"{target} [{tag}]: diagnostics before {bd}, after {gd}", wit)
            continue
        used = set()
        for b in bd or []:
            res.count("evaluations")
            cand = [n for n, g in enumerate(gd) if n not in used and g[0] == b[0] and g[2] == b[2] and b[1] in back(g[1])]
            if not cand:
                res.violation(hostile_key(hostile, ops, f"diagnostics:differs:{opkey(ops, eol)}"), f"{target} [{tag}]: diagnostic {b} has no counterpart in {gd[:4]}", wit)
                break
            used.add(cand[0])
    if i % 40 == 0:
        res.sample({"target": target, "ops_example": sorted(ops), "transformed_head": lay.text("\n")[:400]}, limit=1)
    return res


def lines_text(lines, ol):
    for ln in lines:
        if ln.no == ol:
            return ln.raw
    return ""


def hostile_key(hostile, ops, key):
    """hostile class: statements that open/close scopes (MODULE, TYPE, SUBROUTINE, CONTAINS, END ..., bindings, IMPLICIT ...) are split over
    continuation lines inside their keywords or joined with `;` — upstream handles only part of these forms"""
    if hostile and "split" in ops and not key.startswith("request-side:"):
        return "layout:split-or-join-of-structural-statement"
    return key


def opkey(ops, eol):
    """the smallest description of T for the mechanism key: the set of structural operations (case/eol folded)"""
    k = sorted({("case" if o.startswith("case-") else o) for o in ops})
    if eol != "\n":
        k.append("eol-" + {"\r\n": "crlf", "\r": "cr"}[eol])
    return "+".join(k) or "identity"
