"""C07 — diagnostics: silent on valid programs, present on each documented defect.

Valid part: gfortran-accepted model programs (all styles) and every member of every bundled intrinsic module in a
USE..ONLY must produce no error-severity diagnostic.  Seeded part: for each defect class a seeding operator edits a valid
program at an applicable position (positions enumerated from the generator's line roles); a diagnostic of the class's
severity must appear on the offending line (matched by severity + line + identifier, never by wording) and no unrelated
error may appear in any file.
"""
import json
import os
import re

from vf.core import Result, REPO
from vf import harness as H
from vf import model as M

PROP = "C07"
LEVEL = "fault_enumeration"
META = {
    "category": "fault_enumeration",
    "engine": "model-monitor",
    "technique": "runtime monitor: published diagnostics compared with seeded-defect expectations (class, severity, offending line, identifier) over generated valid programs x defect classes x enumerated seeding positions; plus silence on valid programs and on the exhaustive intrinsic-module member sweep",
    "text": "Every generated valid program (gfortran-validated) must be free of error-severity diagnostics; each of the 19 defect sub-classes of the statement is seeded at positions enumerated from the generator's line roles (all applicable positions in the thorough tier, up to 3 per class and program in quick) and the class's diagnostic must be published on the offending line with the class's severity while no unrelated error appears in any file. Every member of every bundled intrinsic module is imported once (exhaustive). Further operators: dummy undeclared under an inherited IMPLICIT NONE, USE after IMPLICIT on one line, deferred binding open through an abstract parent; every pass is repeated (same list, no duplicates); every intrinsic-module member name is also declared as a local variable; four hand-written valid programs.",
    "note": "trusted: seeding operators and their expected (severity, line set, identifier); wording of messages is not compared; accepted lines per class were fixed after reviewing the pinned tree by hand (e.g. 'USE after IMPLICIT' is reported on the IMPLICIT line, an unclosed block on its opening line)",
}
RULE = ("valid: generated workspaces x styles, all files; intrinsic sweep: every (module, member) of intrinsic.modules.json; seeded: program x class x position "
        "with classes dup-decl, mask-host, open-block-at-bare-end, unknown-module, type-not-accessible, dummy-undeclared (also with IMPLICIT NONE only inherited from 1 or 2 hosts up), intent-not-arg, second-contains, "
        "outside-scope x{contains, implicit, public, private}, import-outside-interface, use-after-implicit (next line and same line after `;`), proc-before-contains, proc-in-type, proc-in-block, "
        "deferred-unimplemented (direct and through an abstract intermediate type), long-line; evaluations = diagnostics passes judged; distinct = (program, class, position)")
ASSUME = ["seeded programs need not be valid Fortran otherwise", "message wording is free"]


def plan(tier):
    if tier == "quick":
        return {"ncases": 240, "nshards": 16, "budget_s": 75, "floor": 1000, "stall_s": 60}
    return {"ncases": 12000, "nshards": 16, "budget_s": 1800, "floor": 20000, "stall_s": 300}


VALID_EXTRA = [
    "program ve_block_type\n  implicit none\n  integer :: n\n  n = 1\n  block\n    type :: bt\n      integer :: c\n    end type bt\n    type(bt) :: v\n    v%c = n\n  end block\nend program ve_block_type\n",
    "module ve_abs\n  implicit none\n  type, abstract :: shape\n  contains\n    procedure(area_if), deferred :: area\n  end type shape\n  abstract interface\n    function area_if(self) result(a)\n      import :: shape\n      class(shape), intent(in) :: self\n      real :: a\n    end function area_if\n  end interface\n"
    "  type, abstract, extends(shape) :: polygon\n    integer :: nsides\n  end type polygon\n  type, extends(polygon) :: square\n    real :: edge\n  contains\n    procedure :: area => square_area\n  end type square\ncontains\n  function square_area(self) result(a)\n    class(square), intent(in) :: self\n    real :: a\n    a = self%edge ** 2\n  end function square_area\nend module ve_abs\n",
    "module ve_enum\n  implicit none\n  enum, bind(c)\n    enumerator :: red = 1, green\n    enumerator blue\n  end enum\n  interface operator(.plus.)\n    module procedure addi\n  end interface\ncontains\n  integer function addi(a, b)\n    integer, intent(in) :: a, b\n    addi = a + b\n  end function addi\nend module ve_enum\n",
    "module ve_sel\n  implicit none\n  type :: t\n    integer :: c\n  end type t\ncontains\n  subroutine s(x)\n    class(*), intent(in) :: x\n    integer :: k\n    select type (y => x)\n    type is (t)\n      k = y%c\n    type is (integer)\n      k = y\n    class default\n      k = 0\n    end select\n    associate (z => k)\n      k = z + 1\n    end associate\n  end subroutine s\nend module ve_sel\n",
]


def intrinsic_members():
    d = json.load(open(os.path.join(REPO, "fortls", "parsers", "internal", "intrinsic.modules.json")))
    out = []
    for mod, v in d.items():
        for c in v.get("children", []) or []:
            if isinstance(c, dict) and "name" in c:
                out.append((mod, c["name"]))
    return out


def all_diags(srv, ws, files):
    out = {}
    for f in files:
        d, ev = srv.diagnostics(ws.uri(f))
        fails = [e for e in ev if e[0] == "err" or (e[0] == "notif" and e[1] == "window/showMessage" and "failed" in str(e[2].get("message")))]
        # a second pass over the unchanged file must publish the same list, and no entry twice
        d2, ev2 = srv.diagnostics(ws.uri(f))
        key = lambda x: json.dumps(x, sort_keys=True)
        if d is not None and d2 is not None:
            if sorted(map(key, d)) != sorted(map(key, d2)):
                fails.append(("notif", "vf/monitor", {"message": f"second diagnostics pass differs: {len(d)} entries, then {len(d2)}"}))
            if len(set(map(key, d))) != len(d):
                fails.append(("notif", "vf/monitor", {"message": "the same diagnostic is published twice in one list"}))
        out[f] = (d, fails)
    return out


# ------------------------------------------------------------------------------------------------
# seeding operators: each yields (class, files', expected) with expected = {"file", "sev", "lines": set, "word": str|None, "companions": {(file, line)}}


def roles_of(w, f):
    return w.roles[f]


def scope_lines(w, f, s, role):
    return [ln for ln, r, sc in w.roles[f] if r == role and sc is s]


def ins(lines, at, new):
    return lines[:at] + list(new) + lines[at:]


def positions(w, rng, limit):
    """enumerate (class, build) closures"""
    out = []
    for f in w.files:
        lines = w.lines[f]
        roles = w.roles[f]
        scopes = [s for s in w.scopes if s.file == f]
        procs = [s for s in scopes if s.kind in ("sub", "fun")]
        for s in scopes:
            impl = scope_lines(w, f, s, "implicit")
            if not impl:
                continue
            il = impl[0]
            pad = " " * (len(lines[il]) - len(lines[il].lstrip()))
            # 1 duplicate declaration
            for ln, r, sc in roles:
                if r == "decl" and sc is s and re.search(r"::\s*([\w$]+)\s*$", lines[ln]) and not lines[ln].lstrip().lower().startswith(("type", "class")):
                    nm = re.search(r"::\s*([\w$]+)\s*$", lines[ln]).group(1)
                    if s.kind in ("sub", "fun") and ln < s.sline + 1:
                        continue
                    in_block = any(r2 in ("open",) for l2, r2, s2 in roles if s2 is s and l2 < ln and not any(l3 > l2 and l3 < ln and r3 == "close" for l3, r3, s3 in roles if s3 is s)) if False else False
                    out.append(("dup-decl", f, (lambda lines=lines, ln=ln, nm=nm: (ins(lines, ln + 1, [lines[ln]]), {"sev": 1, "lines": {ln, ln + 1}, "word": nm}))))
            if s.kind in ("sub", "fun"):
                # 2 masks host variable
                if s.parent is not None:
                    local = {e.name.lower() for e in s.ents} | {s.name.lower()} | ({s.result.name.lower()} if s.result else set())
                    imported = set()
                    for u in s.uses:
                        imported |= {k.lower() for k in M.imported(u)}
                    for e in s.parent.ents:
                        if e.kind == "var" and e.tdef is None and e.name.lower() not in local | imported and not getattr(e, "loopvar", False):
                            out.append(("mask-host", f, (lambda lines=lines, il=il, nm=e.name, pad=pad: (ins(lines, il + 1, [f"{pad}integer :: {nm}"]), {"sev": 2, "lines": {il + 1}, "word": nm}))))
                # 6 dummy undeclared
                for a in s.args:
                    dl = [ln for ln, r, sc in roles if r == "decl" and sc is s and re.search(rf"::\s*{re.escape(a.name)}\s*$", lines[ln], re.I)]
                    if dl and a.file == f:
                        out.append(("dummy-undeclared", f, (lambda lines=lines, dl=dl[0], nm=a.name, s=s: (lines[:dl] + lines[dl + 1:], {"sev": 1, "lines": {s.sline}, "word": nm}))))
                        # 6b the same with IMPLICIT NONE only inherited: the statement is removed from the procedure and from every host procedure,
                        # it stays in the enclosing module/program (1 level for module procedures, 2 for internal procedures)
                        hosts, h = [], s
                        while h is not None and h.kind in ("sub", "fun"):
                            hosts.append(h)
                            h = h.parent
                        if h is not None and scope_lines(w, f, h, "implicit") and all(scope_lines(w, f, x, "implicit") for x in hosts) and all(x.file == f for x in hosts):
                            drop = sorted({dl[0]} | {scope_lines(w, f, x, "implicit")[0] for x in hosts})
                            shift = sum(1 for d in drop if d < s.sline)
                            out.append(("dummy-undeclared-inherited-implicit", f, (lambda lines=lines, drop=drop, nm=a.name, s=s, shift=shift: (
                                [l for n, l in enumerate(lines) if n not in drop], {"sev": 1, "lines": {s.sline - shift}, "word": nm, "depth": 0}))))
                # 7 intent not in argument list
                out.append(("intent-not-arg", f, (lambda lines=lines, il=il, pad=pad: (ins(lines, il + 1, [f"{pad}integer, intent(in) :: zz_na"]), {"sev": 1, "lines": {il + 1}, "word": "zz_na"}))))
                # 10 import outside interface (placed before IMPLICIT so that no USE-order companion arises)
                out.append(("import-outside-interface", f, (lambda lines=lines, il=il, pad=pad: (ins(lines, il, [f"{pad}import :: zz_imp"]), {"sev": 1, "lines": {il}, "word": None, "companion_lines": {il + 1}}))))
                # 3 open block at bare END (top-level construct of a procedure without CONTAINS)
                if not s.procs:
                    depth = 0
                    start = None
                    for ln, r, sc in roles:
                        if sc is not s:
                            continue
                        if r == "open":
                            if depth == 0:
                                start = ln
                            depth += 1
                        elif r == "close":
                            depth -= 1
                            if depth == 0 and start is not None and lines[start].lstrip().lower().startswith("forall"):
                                start = None  # FORALL is not a construct the server tracks (no scope is opened for it): outside "supported constructs"
                            if depth == 0 and start is not None:
                                o, c = start, ln
                                endl = s.eline
                                ipad = " " * (len(lines[endl]) - len(lines[endl].lstrip()))
                                # a construct with guard/branch statements (SELECT, IF ... ELSE, WHERE ... ELSEWHERE) is open in its last region: the
                                # report may sit on the opening line or on any of its branch lines
                                mids = {l2 for l2, r2, s2 in roles if s2 is s and r2 == "mid" and o < l2 < c}
                                out.append(("open-block-at-bare-end", f, (lambda lines=lines, o=o, c=c, endl=endl, ipad=ipad, mids=mids: (
                                    lines[:c] + lines[c + 1:endl] + [ipad + "end"] + lines[endl + 1:], {"sev": 1, "lines": {o, endl - 1} | mids, "word": None, "cascade_after": endl - 1}))))
                                start = None
                # 13b procedure nested in a block construct
                for ln, r, sc in roles:
                    if r == "open" and sc is s:
                        out.append(("proc-in-block", f, (lambda lines=lines, ln=ln, pad=pad: (ins(lines, ln + 1, [f"{pad}subroutine zz_inblock()", f"{pad}end subroutine zz_inblock"]), {"sev": 1, "lines": {ln + 1}, "word": None}))))
            # 4 unknown module
            out.append(("unknown-module", f, (lambda lines=lines, s=s, pad=pad: (ins(lines, s.sline + 1, [f"{pad}use zz_no_such_module"]), {"sev": 3, "lines": {s.sline + 1}, "word": "zz_no_such_module"}))))
            # 5 type defined in the project but not accessible
            vis = M.visible(s)
            closure_mods = set()
            for s2 in s.chain():
                for u in s2.uses:
                    closure_mods.add(u.mod)
            for t in w.gen.all_types:
                tm = t.module()
                if tm is None or tm in closure_mods or tm in s.chain() or not M.is_public(tm, t):
                    continue
                if any(v.kind == "type" and v.name.lower() == t.name.lower() for v in vis.values()):
                    continue
                # fortls cannot know about modules that are reachable transitively: require that no used module uses tm
                reach = set()

                def walk(m):
                    if m in reach:
                        return
                    reach.add(m)
                    for u in m.uses:
                        walk(u.mod)
                for m in closure_mods:
                    walk(m)
                if tm in reach:
                    continue
                out.append(("type-not-accessible", f, (lambda lines=lines, il=il, nm=t.name, pad=pad: (ins(lines, il + 1, [f"{pad}type({nm}) :: zz_tv"]), {"sev": 1, "lines": {il + 1}, "word": nm}))))
                break
            # 11 USE after IMPLICIT
            others = [m for m in w.mods if m not in s.chain()]
            if others:
                mn = others[0].name
                out.append(("use-after-implicit", f, (lambda lines=lines, il=il, mn=mn, pad=pad: (ins(lines, il + 1, [f"{pad}use {mn}"]), {"sev": 1, "lines": {il, il + 1}, "word": None}))))
                out.append(("use-after-implicit-same-line", f, (lambda lines=lines, il=il, mn=mn: (lines[:il] + [lines[il].rstrip() + f"; use {mn}"] + lines[il + 1:], {"sev": 1, "lines": {il}, "word": None}))))
            # 8 second CONTAINS / 12 procedure before CONTAINS
            for cl in scope_lines(w, f, s, "contains"):
                out.append(("second-contains", f, (lambda lines=lines, cl=cl: (ins(lines, cl + 1, [lines[cl]]), {"sev": 1, "lines": {cl, cl + 1}, "word": None}))))
                cpad = " " * (len(lines[cl]) - len(lines[cl].lstrip()) + 2)
                out.append(("proc-before-contains", f, (lambda lines=lines, cl=cl, cpad=cpad: (ins(lines, cl, [f"{cpad}subroutine zz_early()", f"{cpad}end subroutine zz_early"]), {"sev": 1, "lines": {cl}, "word": None}))))
            # 14 unimplemented deferred binding (module specification part)
            if s.kind == "module":
                at = (scope_lines(w, f, s, "contains") or [s.eline])[0]
                snippet = [f"{pad}type, abstract :: zz_ab", f"{pad}contains", f"{pad}  procedure(zz_ai), deferred :: zz_dd", f"{pad}end type zz_ab",
                           f"{pad}abstract interface", f"{pad}  subroutine zz_ai(s)", f"{pad}    import zz_ab", f"{pad}    class(zz_ab) :: s", f"{pad}  end subroutine zz_ai", f"{pad}end interface",
                           f"{pad}type, extends(zz_ab) :: zz_child", f"{pad}  integer :: zz_c", f"{pad}end type zz_child"]
                out.append(("deferred-unimplemented", f, (lambda lines=lines, at=at, snippet=snippet: (ins(lines, at, snippet), {"sev": 1, "lines": {at + 10, at + 12}, "word": "zz_dd"}))))
                # the same through an abstract intermediate type that leaves the binding open: the concrete grandchild is the offender
                snippet3 = snippet[:10] + [f"{pad}type, abstract, extends(zz_ab) :: zz_mid", f"{pad}end type zz_mid", f"{pad}type, extends(zz_mid) :: zz_leaf", f"{pad}  integer :: zz_c", f"{pad}end type zz_leaf"]
                out.append(("deferred-unimplemented-via-abstract-parent", f, (lambda lines=lines, at=at, snippet3=snippet3: (ins(lines, at, snippet3), {"sev": 1, "lines": {at + 12, at + 14}, "word": "zz_dd"}))))
        # 13a procedure nested in a type
        for ln, r, sc in roles:
            if r == "type-open":
                tpad = " " * (len(lines[ln]) - len(lines[ln].lstrip()) + 2)
                out.append(("proc-in-type", f, (lambda lines=lines, ln=ln, tpad=tpad: (ins(lines, ln + 1, [f"{tpad}subroutine zz_intype()", f"{tpad}end subroutine zz_intype"]), {"sev": 1, "lines": {ln + 1}, "word": None}))))
        # 9 statements outside any scope (top and bottom of the file)
        for word, cls in (("contains", "outside-scope:contains"), ("implicit none", "outside-scope:implicit"), ("public", "outside-scope:public"), ("private", "outside-scope:private")):
            out.append((cls, f, (lambda word=word, lines=lines: ([word] + lines, {"sev": 1, "lines": {0}, "word": None}))))
            out.append((cls, f, (lambda word=word, lines=lines: (lines + [word], {"sev": 1, "lines": {len(lines)}, "word": None}))))
        # 15 over-long line
        for ln, r, sc in roles:
            if r == "stmt" and len(lines[ln]) < 90:
                out.append(("long-line", f, (lambda lines=lines, ln=ln: (lines[:ln] + [lines[ln] + " " * (101 - len(lines[ln])) + "! pad"] + lines[ln + 1:], {"sev": 2, "lines": {ln}, "word": None, "args": ["--max_line_length", "100"]}))))
                break
    # sample per class
    by = {}
    for c in out:
        by.setdefault(c[0], []).append(c)
    sel = []
    for cls, lst in sorted(by.items()):
        if limit and len(lst) > limit:
            lst = rng.sample(lst, limit)
        sel += lst
    return sel


def run_case(ctx, i, rng):
    res = Result()
    quick = ctx.tier == "quick"
    if i == 0:
        # exhaustive intrinsic module member sweep
        mem = intrinsic_members()
        files = {}
        for k, (mod, name) in enumerate(mem):
            files.setdefault(f"im_{mod}.f90", []).append(f"subroutine s_{k}()\n  use {mod}, only: {name}\n  implicit none\nend subroutine s_{k}\n")
        files = {f: "".join(v) for f, v in files.items()}
        # the same names declared as local variables of a procedure whose host uses the intrinsic module (masking is a warning, never a failure)
        byname = {}
        for mod, name in mem:
            byname.setdefault(mod, []).append(name)
        for mod, names in byname.items():
            uniq = sorted({n.lower() for n in names if re.fullmatch(r"[A-Za-z]\w*", n)})
            files[f"mask_{mod}.f90"] = (f"module mask_{mod}\n  use {mod}\n  implicit none\ncontains\n" +
                                        "".join(f"  subroutine mk_{k}()\n    integer :: {n}\n    {n} = 1\n  end subroutine mk_{k}\n" for k, n in enumerate(uniq)) + f"end module mask_{mod}\n")
        # hand-written valid programs with features the generator lacks
        for k, t in enumerate(VALID_EXTRA):
            files[f"valid_extra_{k}.f90"] = t
        ws, srv, ev = H.start(files, nthreads=2)
        try:
            for f, (d, fails) in all_diags(srv, ws, files).items():
                res.count("evaluations")
                for x in d or []:
                    if x["severity"] == 1:
                        ln = x["range"]["start"]["line"]
                        res.violation("valid:intrinsic-module-member:error", f"{f}: {files[f].splitlines()[ln] if ln < len(files[f].splitlines()) else ''!r}: {x['message'][:100]}", {"files": {f: files[f]}, "diag": x})
                for e in fails:
                    res.violation("valid:diagnostics-failed", str(e)[:200], {"files": {f: files[f]}})
            res.count("intrinsic_members_swept", len(mem))
            for m_, n_ in mem:
                res.seen("intr", m_, n_)
            res.kind("class:intrinsic-sweep")
        finally:
            ws.close()
        return res
    style = M.Style(rng) if rng.random() < 0.6 else None
    w = M.gen_workspace(rng, style=style, tight=rng.random() < 0.3)
    if M.have_gfortran():
        ok, err = M.gfortran_check(w.files, w.order)
        if not ok:
            res.count("generator_rejects")
            return res
    # valid part
    ws, srv, ev = H.start(w.files, nthreads=2)
    try:
        for f, (d, fails) in all_diags(srv, ws, w.files).items():
            res.count("evaluations")
            res.seen(i, "valid", f)
            res.kind("class:valid")
            for e in fails:
                res.violation("valid:diagnostics-failed", str(e)[:200], {"files": w.files, "file": f})
            for x in d or []:
                if x["severity"] == 1:
                    ln = x["range"]["start"]["line"]
                    msg = re.sub(r'"[^"]*"', '"…"', x["message"])
                    res.violation("valid:error-on-valid-program:" + msg[:60], f"{f}:{ln}: {w.lines[f][ln] if ln < len(w.lines[f]) else ''!r}: {x['message'][:120]}", {"files": w.files, "file": f, "diag": x})
    finally:
        ws.close()
    # seeded part
    for cls, f, build in positions(w, rng, 2 if quick else 0):
        try:
            newlines, exp = build()
        except Exception as e:  # noqa
            res.inconclusive.append(f"seeding operator {cls} failed: {e!r}")
            continue
        files = dict(w.files)
        files[f] = "\n".join(newlines) + "\n"
        ws, srv, ev = H.start(files, args=exp.get("args"), nthreads=2)
        try:
            diags = all_diags(srv, ws, files)
            res.count("evaluations")
            res.count("seeded")
            res.kind("class:" + cls)
            res.seen(i, cls, f, sorted(exp["lines"])[0])
            wit = {"files": files, "seeded_file": f, "class": cls, "expected": {"sev": exp["sev"], "lines": sorted(exp["lines"]), "word": exp.get("word")}}
            d, fails = diags[f]
            if d is None or fails:
                res.violation(f"seeded:{cls}:diagnostics-failed", str(fails)[:200], wit)
                continue
            hit = False
            for x in d:
                ln = x["range"]["start"]["line"]
                if x["severity"] == exp["sev"] and ln in exp["lines"]:
                    if exp.get("word"):
                        rg = x["range"]
                        under = newlines[ln][rg["start"]["character"]:rg["end"]["character"]].lower() if ln < len(newlines) else ""
                        if exp["word"].lower() not in x["message"].lower() and exp["word"].lower() != under:
                            continue
                    hit = True
            if not hit:
                res.violation(f"seeded:{cls}:not-reported", f"no severity-{exp['sev']} diagnostic on line(s) {sorted(exp['lines'])} of {f}"
                              f" ({[newlines[l] for l in sorted(exp['lines']) if l < len(newlines)]}); got {[(x['range']['start']['line'], x['severity'], x['message'][:50]) for x in d]}", wit)
                continue
            ok_lines = set(exp["lines"]) | set(exp.get("companion_lines", ()))
            for f2, (d2, fails2) in diags.items():
                for x in d2 or []:
                    ln = x["range"]["start"]["line"]
                    if f2 == f and exp.get("cascade_after") is not None and ln >= exp["cascade_after"]:
                        continue  # the unclosed scope swallows what follows: consequential errors after the END are part of the defect
                    if x["severity"] == 1 and not (f2 == f and ln in ok_lines):
                        msg = re.sub(r'"[^"]*"', '"…"', x["message"])
                        res.violation(f"seeded:{cls}:unrelated-error:" + msg[:50], f"{f2}:{ln}: {x['message'][:100]}", dict(wit, diag=x, diag_file=f2))
        finally:
            ws.close()
    if i % 50 == 1:
        res.sample({"classes": sorted({c for c, _, _ in positions(w, rng, 1)}), "file": w.order[0]}, limit=1)
    return res
