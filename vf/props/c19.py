"""C19 — command line and configuration file are interchangeable; the file wins.

Metamorphic equalities over S(cli, file) = (effective option attributes after initialize, observable effects of a fixed
query battery), each observation taken in a forked child (process-global state).  Exhaustive over options x channel states
and over ordered pairs of options; malformed files by a fixed catalogue incl. injected PermissionError.
"""
import json
import os
import pickle
import sys
import traceback

from vf.core import Result
from vf import harness as H

PROP = "C19"
LEVEL = "exploration"
META = {
    "engine": "model-monitor",
    "technique": "runtime monitor: metamorphic equalities between observations (hooked option attributes + query-battery effects) of real servers started with an option on the command line, in the configuration file, in both, and with malformed files; exhaustive over options, option pairs and a malformed-file catalogue",
    "text": "For every documented option the real server is started (forked child per observation) with the option absent, on the command line, in the file, and in both with different values; effective attributes and the answers of a query battery designed so that every option has a visible effect must satisfy: CLI-only == file-only, both == file-only(file value), option absent from file keeps CLI value (all ordered option pairs). Malformed files (invalid JSON, wrong top-level types, wrong value types early/late, empty, missing explicit file, unreadable by injected PermissionError) must yield a showMessage, leave attributes and effects as without file, and initialize must succeed. The option x channel matrix and the pair matrix are enumerated completely. Observations are repeated after the document was re-indexed inside the server process; pp_defs is also given as a list of names.",
    "note": "trusted: the equalities themselves (no model of option resolution); boolean options cannot be set to false on the command line (absent = false); values are one or two representative non-default values per option",
}
RULE = ("tasks: eq1 (26 options), eq2 (26 options), eq3 (all ordered pairs of 26 options), malformed-file catalogue (16 kinds x 3 CLI option sets); each task = 2 "
        "observations of a freshly started server on a fixed 9-file workspace; evaluations = observations compared; distinct = distinct tasks")
ASSUME = ["one or two representative values per option", "observation battery is fixed; an option whose effect is invisible to it is still compared by attribute"]

BASE_FILES = {
    "top.f90": "module top_mod\n  implicit none\n  !> documented variable\n  integer, allocatable, save, target :: top_var(:)\n  type :: top_t\n    integer :: comp\n  contains\n    procedure :: bound => top_sub\n  end type top_t\ncontains\n  subroutine top_sub(self, arg1, arg2)\n    class(top_t), intent(in) :: self\n    integer, intent(in) :: arg1\n    real, optional, intent(out) :: arg2\n    integer :: a_really_long_variable_name_number_one, another_really_long_variable_name_2\n    ! a rather long comment line that goes on and on beyond thirty and fifty characters for sure\n    call top_sub(self, arg1)\n    top_var = abs(arg1)\n  end subroutine top_sub\nend module top_mod\n",
    "sub/inner.f90": "module inner_mod\n  integer :: inner_var\nend module inner_mod\n",
    "sub/inner_skip.f90": "module inner_skip_mod\nend module inner_skip_mod\n",
    "other/oth.F90": "#ifdef FOO\nmodule foo_on\nend module foo_on\n#else\nmodule foo_off\nend module foo_off\n#endif\n#ifdef BAR\nmodule bar_on\nend module bar_on\n#endif\n#include \"inc.h\"\n#ifdef FROM_INC\nmodule inc_found\nend module inc_found\n#endif\n",
    "other/low.f90": "#ifdef FOO\nmodule low_foo\nend module low_foo\n#endif\nmodule low_always\nend module low_always\n",
    "other/x.fxx": "module fxx_mod\nend module fxx_mod\n#ifdef FOO\nmodule fxx_foo\nend module fxx_foo\n#endif\n",
    "other/y.fyy": "module fyy_mod\nend module fyy_mod\n",
    "incdir/inc.h": "#define FROM_INC 1\n",
    "incdir2/inc.h": "#define OTHER_INC 1\n",
}

# option -> (v, w)  v: value used on the CLI (and file), w: a different value for the file
OPTIONS = {
    "nthreads": (2, 3), "notify_init": (True, False), "incremental_sync": (True, False), "recursion_limit": (1500, 1700),
    "sort_keywords": (True, False), "disable_autoupdate": (True, False), "debug_log": (True, False),
    "source_dirs": (["sub"], ["other"]), "incl_suffixes": ([".fxx"], [".fyy"]), "excl_suffixes": (["_skip.f90"], [".F90"]),
    "excl_paths": (["sub"], ["other"]), "autocomplete_no_prefix": (True, False), "autocomplete_no_snippets": (True, False),
    "autocomplete_name_only": (True, False), "lowercase_intrinsics": (True, False), "use_signature_help": (True, False),
    "hover_signature": (True, False), "hover_language": ("fortran", "f95"), "max_line_length": (40, 60),
    "max_comment_line_length": (30, 50), "disable_diagnostics": (True, False), "pp_suffixes": ([".f90"], [".fxx"]),
    "include_dirs": (["incdir"], ["incdir2"]), "pp_defs": (["FOO"], {"BAR": "2"}), "symbol_skip_mem": (True, False),
    "enable_code_actions": (True, False),
}
OPT_NAMES = sorted(OPTIONS)

MALFORMED = [
    ("invalid-json", "{ \"nthreads\": 2,, }"), ("empty", ""), ("only-comment", "// nothing\n"), ("top-array", "[1, 2]"), ("top-string", "\"abc\""),
    ("top-null", "null"), ("top-number", "5"), ("excl_paths-number", "{\"nthreads\": 3, \"excl_paths\": 5}"), ("nthreads-string", "{\"nthreads\": \"x\"}"),
    ("late-wrong-type", "{\"hover_language\": \"f03\", \"max_line_length\": 70, \"symbol_skip_mem\": true, \"include_dirs\": 7}"),
    ("pp_defs-number", "{\"incremental_sync\": true, \"pp_defs\": 3}"), ("source_dirs-string", "{\"source_dirs\": \"sub\"}"),
    ("bool-as-string", "{\"incremental_sync\": \"yes\", \"hover_language\": \"f18\"}"), ("pp_suffixes-string", "{\"pp_suffixes\": \".f90\", \"nthreads\": 2}"),
    ("missing-explicit", None), ("unreadable", "{\"nthreads\": 3}"), ("binary-garbage", "\x00\x01\x02{"), ("unterminated", "{\"nthreads\": 2"),
]


def plan(tier):
    n = len(tasks())
    return {"ncases": n, "nshards": 16, "budget_s": 90 if tier == "quick" else 600, "floor": 200, "stall_s": 60}


def tasks():
    t = []
    for o in OPT_NAMES:
        t.append(("eq1", o))
        t.append(("eq2", o))
    for o in OPT_NAMES:
        for o2 in OPT_NAMES:
            if o != o2:
                t.append(("eq3", o, o2))
    cli_sets = [{}, {"hover_language": "fortran", "nthreads": 2, "max_line_length": 40}, {"incremental_sync": True, "pp_defs": {"FOO": "1"}, "excl_paths": ["sub"]}]
    for kind, _ in MALFORMED:
        for k in range(len(cli_sets)):
            t.append(("bad", kind, k))
    return t


CLI_SETS = [{}, {"hover_language": "fortran", "nthreads": 2, "max_line_length": 40}, {"incremental_sync": True, "pp_defs": {"FOO": "1"}, "excl_paths": ["sub"]}]


def cli_args(opts):
    a = []
    for k, v in opts.items():
        if isinstance(v, bool):
            if v:
                a.append("--" + k)
        elif k == "pp_defs":
            a += ["--" + k, json.dumps(v)]  # a JSON value on the command line: a dictionary or a list of names
        elif isinstance(v, (list, tuple)):
            a += ["--" + k] + list(v)
        elif isinstance(v, dict):
            a += ["--" + k, json.dumps(v)]
        else:
            a += ["--" + k, str(v)]
    return a


def norm(v, root):
    if v is None or (isinstance(v, (set, frozenset, list, tuple, dict)) and len(v) == 0):
        return None  # "nothing configured" in whatever representation
    if isinstance(v, (set, frozenset, list, tuple)):
        return sorted(norm(x, root) for x in v)
    if isinstance(v, str):
        return v.replace(root, "<ROOT>")
    if isinstance(v, dict):
        return {k: norm(x, root) for k, x in sorted(v.items())}
    return v


def observe_child(cli, file_text, config_arg, fault):
    """runs in a forked child: returns the observation dict"""
    import logging
    ws = H.Workspace(dict(BASE_FILES))
    try:
        root = ws.root
        if file_text is not None:
            ws.write(config_arg or ".fortlsrc", file_text)
        argv = cli_args(cli)
        if config_arg:
            argv += ["--config", config_arg]
        settings = vars(H.cli("fortls").parse_args(argv))
        conn = H.Recorder()
        srv = H.LangServer(conn, settings)
        if fault == "unreadable":
            import builtins
            real_open = builtins.open

            def fake_open(path, *a, **k):
                if str(path).endswith(".fortlsrc"):
                    raise PermissionError(13, "Permission denied", str(path))
                return real_open(path, *a, **k)
            builtins.open = fake_open
        obs = {}
        srv.handle({"jsonrpc": "2.0", "id": 1, "method": "initialize", "params": {"rootPath": root}})
        for m in srv.post_messages:
            srv.post_message(m[1], m[0])
        srv.post_messages = []
        if fault == "unreadable":
            builtins.open = real_open
        init = [e for e in conn.out if e[0] in ("resp", "err")]
        obs["initialize"] = "ok" if init and init[0][0] == "resp" else ("error: " + str(init[0][3])[:80] if init else "none")
        obs["capabilities"] = init[0][2]["capabilities"] if init and init[0][0] == "resp" else None
        obs["messages"] = sorted((e[2].get("type"), str(e[2].get("message")).replace(root, "<ROOT>")[:120]) for e in conn.out if e[0] == "notif" and e[1] == "window/showMessage")
        attrs = {}
        for o in OPT_NAMES:
            attrs[o] = norm(getattr(srv, o, "<unset>"), root)
        obs["attrs"] = attrs
        obs["recursionlimit"] = sys.getrecursionlimit()
        obs["debug_log_file"] = os.path.isfile(os.path.join(root, "fortls_debug.log"))
        obs["indexed"] = sorted(os.path.relpath(p, root) for p in srv.workspace)
        obs["modules"] = sorted(k for k, v in srv.obj_tree.items() if v[1] is not None)
        if obs["initialize"] != "ok":
            return obs

        def req(method, params):
            n = len(conn.out)
            srv.handle({"jsonrpc": "2.0", "id": 99, "method": method, "params": params})
            for e in conn.out[n:]:
                if e[0] == "resp":
                    return e[2]
                if e[0] == "err":
                    return {"ERROR": str(e[3])[:80]}
            return None

        top = ws.uri("top.f90")
        n0 = len(conn.out)
        srv.handle({"jsonrpc": "2.0", "method": "textDocument/didOpen", "params": {"textDocument": {"uri": top}}})
        diags = [e[2]["diagnostics"] for e in conn.out[n0:] if e[0] == "notif" and e[1] == "textDocument/publishDiagnostics"]
        obs["diagnostics"] = [sorted((d["range"]["start"]["line"], d["severity"], d["message"][:50]) for d in ds) for ds in diags] if top_indexed(obs) else "not-indexed"
        if top_indexed(obs):
            h = req("textDocument/hover", {"textDocument": {"uri": top}, "position": {"line": 3, "character": 45}})
            obs["hover_var"] = h["contents"]["value"] if isinstance(h, dict) and "contents" in h else h
            h = req("textDocument/hover", {"textDocument": {"uri": top}, "position": {"line": 16, "character": 11}})
            obs["hover_sub"] = h["contents"]["value"] if isinstance(h, dict) and "contents" in h else h
            c = req("textDocument/completion", {"textDocument": {"uri": top}, "position": {"line": 17, "character": 16}})  # top_var = ab|
            items = c if isinstance(c, list) else (c or {}).get("items", []) if isinstance(c, dict) else []
            obs["completion_ab"] = sorted((i.get("label"), i.get("insertText"), i.get("kind")) for i in items)[:40]
            c = req("textDocument/completion", {"textDocument": {"uri": top}, "position": {"line": 16, "character": 9}})  # call |top_sub
            items = c if isinstance(c, list) else (c or {}).get("items", []) if isinstance(c, dict) else []
            obs["completion_call_n"] = len(items)
            obs["completion_call"] = sorted((i.get("label"), i.get("insertText")) for i in items)[:15]
            s = req("textDocument/signatureHelp", {"textDocument": {"uri": top}, "position": {"line": 16, "character": 24}})
            obs["signature"] = s
            ds = req("textDocument/documentSymbol", {"textDocument": {"uri": top}})
            obs["outline"] = sorted((x["name"], x["kind"]) for x in ds) if isinstance(ds, list) else ds
            ca = req("textDocument/codeAction", {"textDocument": {"uri": top}, "range": {"start": {"line": 10, "character": 0}, "end": {"line": 10, "character": 5}}, "context": {"diagnostics": []}})
            obs["code_action"] = ca if ca is None else len(ca)
        wsym = req("workspace/symbol", {"query": ""})
        obs["workspace_symbols"] = sorted(x["name"] for x in wsym) if isinstance(wsym, list) else wsym
        if top_indexed(obs):
            # the same questions after the document was indexed again inside the server process (an edit): options that shape the index
            # (keyword sorting, hover language, ...) must still be the effective ones
            try:
                with open(os.path.join(root, "top.f90")) as fh:
                    cur = fh.read()
                srv.handle({"jsonrpc": "2.0", "method": "textDocument/didChange", "params": {"textDocument": {"uri": top}, "contentChanges": [{"text": cur + "! edited\n"}]}})
                h = req("textDocument/hover", {"textDocument": {"uri": top}, "position": {"line": 3, "character": 45}})
                obs["hover_var_after_edit"] = h["contents"]["value"] if isinstance(h, dict) and "contents" in h else h
                h = req("textDocument/hover", {"textDocument": {"uri": top}, "position": {"line": 16, "character": 11}})
                obs["hover_sub_after_edit"] = h["contents"]["value"] if isinstance(h, dict) and "contents" in h else h
                obs["signature_after_edit"] = req("textDocument/signatureHelp", {"textDocument": {"uri": top}, "position": {"line": 16, "character": 24}})
            except OSError:
                pass
        return obs
    finally:
        ws.close()
        logging.shutdown()


def top_indexed(obs):
    return "top.f90" in obs["indexed"]


def observe(cli, file_opts=None, raw=None, config_arg=None, fault=None):
    """fork a child, take one observation"""
    file_text = raw if raw is not None else (json.dumps(file_opts) if file_opts is not None else None)
    r, w = os.pipe()
    pid = os.fork()
    if pid == 0:
        try:
            os.close(r)
            try:
                obs = observe_child(cli, file_text, config_arg, fault)
            except BaseException:  # noqa
                obs = {"HARNESS_EXCEPTION": traceback.format_exc()[-1500:]}
            with os.fdopen(w, "wb") as fh:
                pickle.dump(obs, fh)
        finally:
            os._exit(0)
    os.close(w)
    with os.fdopen(r, "rb") as fh:
        data = fh.read()
    os.waitpid(pid, 0)
    try:
        return pickle.loads(data)
    except Exception:
        return {"HARNESS_EXCEPTION": "child died without an observation"}


def diff(a, b, ignore=()):
    out = []
    for k in sorted(set(a) | set(b)):
        if k in ignore:
            continue
        if k == "attrs":
            for o in OPT_NAMES:
                if a["attrs"].get(o) != b["attrs"].get(o):
                    out.append(f"attrs.{o}: {a['attrs'].get(o)!r} != {b['attrs'].get(o)!r}")
        elif a.get(k) != b.get(k):
            out.append(f"{k}: {H.jdump(a.get(k), 160)} != {H.jdump(b.get(k), 160)}")
    return out


def run_case(ctx, i, rng):
    res = Result()
    t = tasks()[i]
    res.seen(*t)
    res.kind("task:" + t[0])
    ctx.mark({"task": t})
    if t[0] == "eq1":
        o = t[1]
        v = OPTIONS[o][0]
        a = observe({o: v}, None)
        b = observe({}, {o: v})
        base = observe({}, None)
        res.count("evaluations", 3)
        harness_check(res, a, b, base)
        d = diff(a, b)
        if d:
            res.violation(f"interchange:{o}", f"S(cli {o}={v!r}) != S(file {o}={v!r}): " + "; ".join(d)[:600], {"task": t, "diff": d})
        # the battery must see the option at all (otherwise only the attribute is compared)
        eff = diff(a, base, ignore=("attrs",))
        res.kind("effect-visible" if eff else f"effect-invisible:{o}")
    elif t[0] == "eq2":
        o = t[1]
        v, w = OPTIONS[o]
        c = observe({o: v}, {o: w})
        d0 = observe({}, {o: w})
        res.count("evaluations", 2)
        harness_check(res, c, d0)
        d = diff(c, d0)
        if d:
            res.violation(f"file-wins:{o}", f"S(cli {o}={v!r}, file {o}={w!r}) != S(file {o}={w!r}): " + "; ".join(d)[:600], {"task": t, "diff": d})
    elif t[0] == "eq3":
        o, o2 = t[1], t[2]
        v, x = OPTIONS[o][0], OPTIONS[o2][0]
        e = observe({o: v}, {o2: x})
        f = observe({o: v, o2: x}, None)
        res.count("evaluations", 2)
        harness_check(res, e, f)
        d = diff(e, f)
        if d:
            # which option lost its value?
            lost = [n for n in (o, o2) if e.get("attrs", {}).get(n) != f.get("attrs", {}).get(n)]
            res.violation(f"absent-keeps-cli:{'+'.join(lost) or o}", f"S(cli {o}={v!r}, file {o2}={x!r}) != S(cli both): " + "; ".join(d)[:600], {"task": t, "diff": d})
    else:
        kind, k = t[1], t[2]
        raw = dict(MALFORMED)[kind]
        cli = CLI_SETS[k]
        if kind == "missing-explicit":
            a = observe(cli, None, config_arg="no_such_config.json")
        elif kind == "unreadable":
            a = observe(cli, raw=raw, fault="unreadable")
        else:
            a = observe(cli, raw=raw)
        base = observe(cli, None)
        res.count("evaluations", 2)
        harness_check(res, a, base)
        w = {"task": t, "file_text": raw, "cli": cli}
        if a.get("initialize") != "ok":
            res.violation(f"malformed:{kind}:initialize-fails", f"initialize -> {a.get('initialize')}", w)
            return res
        if not any(m[0] == 1 for m in a.get("messages", [])):
            res.violation(f"malformed:{kind}:no-message", f"no error-type window/showMessage; messages = {a.get('messages')}", w)
        d = diff(a, base, ignore=("messages",))
        if d:
            res.violation(f"malformed:{kind}:options-changed", "; ".join(d)[:600], dict(w, diff=d))
    if i % 60 == 0:
        res.sample({"task": t}, limit=1)
    return res


def harness_check(res, *obs):
    for o in obs:
        if "HARNESS_EXCEPTION" in o:
            res.inconclusive.append("observation failed in the harness: " + o["HARNESS_EXCEPTION"][-300:])


def finalize(stats, kinds):
    inv = sorted(k.split(":", 1)[1] for k in kinds if k.startswith("effect-invisible:"))
    return {"exhaustive_part": "options x {cli-only, file-only, both} and all ordered option pairs and the malformed-file catalogue are enumerated completely",
            "options": OPT_NAMES, "options_without_visible_effect_in_battery": inv}
