"""C05 — go-to-definition follows Fortran's scoping and USE-association rules.

Oracle: the program model's resolver (ground truth by construction; every program is accepted by gfortran -std=f2018 or
discarded).  Monitor: textDocument/definition at the first, a middle and the last+1 column of every use site.
"""
import os

from vf.core import Result
from vf import harness as H
from vf import model as M

PROP = "C05"
LEVEL = "exploration"
META = {
    "engine": "model-monitor",
    "technique": "runtime monitor: go-to-definition answers at every use site of generated multi-file programs compared with the program model's resolver (gfortran-validated programs)",
    "text": "Multi-file programs are generated from a model of modules, nested procedures, derived types (EXTENDS, components, bindings), generic interfaces and USE graphs with ONLY/rename/PUBLIC/PRIVATE/re-export, in which each use site has exactly one accessible declaration; gfortran must accept each program. go-to-definition is asked at three columns of every use site and must land on the declaration line and name range of the bound entity; a PRIVATE entity of another module must never be the answer. Program space is sampled. Every 12th case is a host-association workspace (submodule, INCLUDEd fragments, a declaration fragment shared by two includers) with unique names, where every occurrence must lead to the one declaration.",
    "note": "trusted: the reference resolver (60 lines) and gfortran -fsyntax-only as validity guard; identifiers are never keywords; generic names resolve to the interface block; free-form canonical layout (layouts are C13's subject)",
}
RULE = ("generated workspaces (2-4 modules + program + optional external procedure; small identifier pool so spellings recur) accepted by gfortran; "
        "every occurrence in contexts {ref, call, dummy, type-spec, extends, comp-ref, bind-ref, bind-target, modproc, only, result} x 3 columns; "
        "evaluations = definition requests compared; distinct = (workspace, file, line, col) sites; site classes counted in observed_kinds")
ASSUME = ["gfortran-accepted programs only", "generic resolution by argument type is not modelled", "INCLUDE-declared names are covered by a dedicated sub-generator"]

CTX = ("ref", "call", "dummy", "type-spec", "extends", "comp-ref", "bind-ref", "bind-target", "modproc", "only", "only-alias", "vis-stmt")


def plan(tier):
    if tier == "quick":
        return {"ncases": 1600, "nshards": 16, "budget_s": 75, "floor": 100000, "stall_s": 60}
    return {"ncases": 30000, "nshards": 16, "budget_s": 1800, "floor": 1000000, "stall_s": 240}


def how_visible(w, occ):
    """structural description of how the entity reaches the use site (for the mechanism key)"""
    scope = site_scope(w, occ)
    ent = occ.ent
    if occ.ctx in ("comp-ref", "bind-ref"):
        owner = ent.scope
        return "member" + (":inherited" if getattr(owner, "parent", None) is not None or owner is not None and False else "")
    if scope is None:
        return "?"
    for lvl, s in enumerate(scope.chain()):
        for e in s.ents:
            if e is ent:
                return "local" if lvl == 0 else f"host{min(lvl, 2)}"
        for p in s.procs:
            if p.ent is ent:
                return "local-proc" if lvl == 0 else f"host{min(lvl, 2)}-proc"
        if s.kind == "fun" and (s.result is ent or s.ent is ent):
            return "function-result"
        for u in s.uses:
            imp = M.imported(u)
            for n, e in imp.items():
                if e is ent and n == occ.name.lower():
                    f = ["use"]
                    f.append("lvl%d" % min(lvl, 2))
                    if u.only is not None:
                        f.append("only")
                    if n != ent.name:
                        f.append("renamed-here")
                    if ent.module() is not u.mod:
                        f.append("reexport")
                    # the same module used at another level of the scope chain?
                    cnt = sum(1 for s2 in scope.chain() for u2 in s2.uses if u2.mod is u.mod)
                    if cnt > 1:
                        f.append("module-used-twice-on-chain")
                    return "+".join(f)
    if getattr(ent, "assoc", False):
        return "associate-name"
    if getattr(ent, "block", False):
        return "block-local"
    return "?"


def use_paths(scope, target, limit=3):
    """number of distinct chains of USE statements leading from the scope chain of the site to module `target` (capped)"""
    n = 0

    def walk(mod, seen):
        nonlocal n
        if n >= limit:
            return
        if mod is target:
            n += 1
            return
        for u in mod.uses:
            if u.mod not in seen:
                walk(u.mod, seen + (u.mod,))

    for s in scope.chain():
        for u in s.uses:
            walk(u.mod, (u.mod,))
    return n


def use_closure(scope):
    """all modules reachable through USE statements from the scope chain of the site"""
    seen = []

    def walk(m):
        if m in seen:
            return
        seen.append(m)
        for u in m.uses:
            walk(u.mod)
    for s in scope.chain():
        for u in s.uses:
            walk(u.mod)
    return seen


def whole_alias_names(w, sc):
    """local names introduced by `use m, local => remote` (no ONLY) on the chain/closure of the site, and ONLY-aliases of them, transitively"""
    wl_ = {l.lower() for l, r_, u_ in whole_renames(sc)}
    grew = bool(wl_)
    while grew:
        grew = False
        for s2_ in list(sc.chain()) + use_closure(sc) + list(w.mods):
            for u2_ in s2_.uses:
                for l2_, r2_ in (u2_.only or []):
                    if r2_.lower() in wl_ and l2_.lower() not in wl_:
                        wl_.add(l2_.lower())
                        grew = True
    return wl_


def typed_via_whole_alias(ent, wl_):
    """the object is declared TYPE(alias), or its type (or an ancestor) names its parent by such an alias"""
    if (getattr(ent, "tname", None) or "").lower() in wl_:
        return True
    t_ = ent.tdef
    while t_ is not None:
        if (getattr(t_, "parent_name", None) or "").lower() in wl_:
            return True
        t_ = t_.parent
    return False


def site_module(scope):
    return scope.chain()[-1]


def whole_renames(scope):
    """(local, remote, Use) of every `use m, local => remote` (no ONLY) on the scope chain of the site and in the modules of its USE closure"""
    out = []
    for s in list(scope.chain()) + use_closure(scope):
        for u in s.uses:
            for l, r in getattr(u, "renames", []) or []:
                out.append((l, r, u))
    return out


def site_scope(w, occ):
    best = None
    for s in w.scopes:
        if s.file == occ.file and s.sline is not None and s.sline <= occ.line <= s.eline:
            if best is None or s.sline >= best.sline:
                best = s
    return best


def expected(w, occ):
    e = occ.ent
    if e.file is None:
        return None
    alts = [(e.file, e.line, e.col, e.col + len(e.name))]
    if e.kind == "fun" and getattr(e, "node", None) is not None and e.node.result is None:
        # `f = ...` inside function f: the header or the type declaration of the result are both "the declaration"
        for o in w.occs:
            if o.ent is e and o.ctx == "result-decl":
                alts.append((o.file, o.line, o.col, o.col + len(o.name)))
    return alts


def entity_at(w, got):
    for o in w.occs:
        if o.ctx in ("decl", "prochdr", "typehdr", "comp-decl", "bind-decl", "generic-decl") and (o.file, o.line, o.col) == tuple(got[:3]):
            return o.ent
    return None


def leak_cause(w, occ, got):
    """why is an entity that the model says is inaccessible at the site the answer? (structural, for the mechanism key)"""
    g = entity_at(w, got)
    if g is None:
        return "answer-is-no-declaration"
    scope = site_scope(w, occ)
    if scope is not None and any(v is g for v in M.visible(scope).values()):
        return "answer-accessible-but-other-entity"
    gm = g.module()
    for m in w.mods:
        if m is gm:
            continue
        if m.reexport_vis.get(g.name) == "private" and any(e is g for u in m.uses for e in M.imported(u).values()):
            return "private-statement-on-use-associated-name-ignored"
    if g.vis == "private" or (gm is not None and gm.kind == "module" and not M.is_public(gm, g)):
        return "PRIVATE-entity-of-other-module"
    return "inaccessible-entity"


def host_assoc_case(ctx, i, rng, res):
    """entities reached by host association from other files (submodule, INCLUDEd fragments, a fragment of declarations shared by two includers):
    unique names, so every occurrence of a name must lead to its one declaration"""
    from vf import hostassoc as HA
    files, names, vis = HA.gen(rng)
    ws, srv, ev = H.start(files, nthreads=rng.choice([1, 2]))
    try:
        res.kind("class:host-assoc")
        for nm in names:
            decl = HA.declaration(files, nm)
            if decl is None:
                continue
            for q in sorted(HA.occurrences(files, nm)):
                if q[0].endswith("_inc.f90"):
                    continue  # a position inside a fragment is resolved in whichever includer is current
                r = srv.request("textDocument/definition", srv.pos(ws.uri(q[0]), q[1], q[2] + 1))
                res.count("evaluations")
                res.seen(i, nm, q)
                got = None
                if r[0] == "resp" and isinstance(r[2], dict):
                    rg = r[2]["range"]
                    got = (os.path.relpath(H.path_from_uri(r[2]["uri"]), ws.root), rg["start"]["line"], rg["start"]["character"], rg["end"]["character"])
                if got != decl:
                    res.violation(f"host-assoc:definition:{vis[nm]}:" + ("null" if got is None else "wrong"), f"definition of {nm} at {q[:3]} -> {got}, expected {decl}",
                                  {"files": files, "name": nm, "query": list(q), "expected": list(decl)})
                    break
    finally:
        ws.close()
    return res


def run_case(ctx, i, rng):
    res = Result()
    if i % 12 == 11:
        return host_assoc_case(ctx, i, rng, res)
    style = M.Style(rng) if rng.random() < 0.5 else None
    w = M.gen_workspace(rng, style=style, tight=rng.random() < 0.3)
    if M.have_gfortran():
        ok, err = M.gfortran_check(w.files, w.order)
        res.count("gfortran_checked")
        if not ok:
            res.count("generator_rejects")
            return res
    ws, srv, ev = H.start(w.files, nthreads=2)
    try:
        if ev[0] != "resp":
            res.inconclusive.append("initialize failed")
            return res
        for f in w.files:
            srv.did_open(ws.uri(f))
        witness_files = w.files
        for occ in w.occs:
            if occ.ctx not in CTX:
                continue
            exp = expected(w, occ)
            if exp is None:
                continue
            n = len(occ.name)
            cols = {occ.col, occ.col + n // 2, occ.col + n}
            hv = None
            for col in sorted(cols):
                r = srv.request("textDocument/definition", srv.pos(ws.uri(occ.file), occ.line, col))
                res.count("evaluations")
                res.seen(i, occ.file, occ.line, col)
                ok_ = False
                got = None
                if r[0] == "resp" and isinstance(r[2], dict):
                    loc = r[2]
                    gf = os.path.relpath(H.path_from_uri(loc["uri"]), ws.root)
                    rg = loc["range"]
                    got = (gf, rg["start"]["line"], rg["start"]["character"], rg["end"]["character"])
                    ok_ = any(got == a for a in exp)
                if ok_:
                    res.kind(f"ok:{occ.ctx}:{occ.ent.kind}")
                    continue
                hv = hv or how_visible(w, occ)
                if r[0] == "err":
                    outcome = "error"
                elif got is None:
                    outcome = "null"
                elif got[0] != exp[0][0]:
                    outcome = "wrong-file"
                elif got[1] != exp[0][1]:
                    outcome = "wrong-line"
                else:
                    outcome = "wrong-range"
                # negative clause: a PRIVATE entity of another module must never be the answer
                key = f"definition:{outcome}:{occ.ctx}:{occ.ent.kind}:{hv}"
                sc = site_scope(w, occ)
                if outcome == "null" and occ.name.lower() != occ.ent.name and occ.ent.module() is not None and sc is not None \
                        and occ.ent.module().kind == "module" and use_paths(sc, occ.ent.module()) >= 2:
                    # the module-keyed USE tree cannot hold two different views (ONLY/rename sets) of one module
                    key = "use-tree:alias-of-entity-in-module-reached-by-several-use-paths"
                if outcome in ("wrong-file", "wrong-line") and occ.name.lower() != occ.ent.name and sc is not None:
                    g = entity_at(w, got)
                    if g is not None and g.name == occ.ent.name and g is not occ.ent:
                        # the rename `loc => rem` is applied to another entity that is also called `rem` (homonym) somewhere on the USE tree
                        key = "use-tree:alias-bound-to-homonym-of-remote-name"
                if outcome == "null" and occ.ctx in ("comp-ref", "bind-ref") and sc is not None:
                    # which object is accessed?  the chain base precedes this occurrence on the same line
                    base = [o for o in w.occs if o.file == occ.file and o.line == occ.line and o.col < occ.col and o.ent.tdef is not None]
                    vis_here = M.visible(sc)
                    if any(vis_here.get(o.ent.tdef.name) is not o.ent.tdef for o in base):
                        key = "member:declared-type-not-visible-under-its-own-name-at-site"
                if key.startswith("definition:") and sc is not None:
                    # `use m, local => remote` without ONLY: resolved when the module is used directly by the scope; the alias is not exported
                    # further, and the remote name is not hidden
                    wren = whole_renames(sc)
                    base_ = [o for o in w.occs if o.file == occ.file and o.line == occ.line and o.col < occ.col and o.ent.tdef is not None] if occ.ctx in ("comp-ref", "bind-ref") else []
                    wl_ = {l.lower() for l, r_, u_ in wren}
                    # ... and ONLY-aliases of those aliases (`only: x => alias`), transitively
                    grew = True
                    while grew:
                        grew = False
                        for s2_ in list(sc.chain()) + use_closure(sc) + [m_ for m_ in w.mods]:
                            for u2_ in s2_.uses:
                                for l2_, r2_ in (u2_.only or []):
                                    if r2_.lower() in wl_ and l2_.lower() not in wl_:
                                        wl_.add(l2_.lower())
                                        grew = True

                    def via_alias(t_):
                        # the type, or one of its ancestors, names its parent by a whole-module rename alias
                        while t_ is not None:
                            if (getattr(t_, "parent_name", None) or "").lower() in wl_:
                                return True
                            t_ = t_.parent
                        return False
                    if outcome == "null" and any(o.name.lower() in wl_ or (getattr(o.ent, "tname", None) or "").lower() in wl_ or via_alias(o.ent.tdef) for o in base_):
                        # member of an object that is itself only visible under a whole-module rename alias
                        key = "use-tree:rename-without-only:alias-not-visible-through-other-modules"
                    elif outcome == "null" and (occ.name.lower() in {l.lower() for l, r_, u_ in wren}
                                              or any(M.exports(u_.mod).get(r_) is occ.ent and occ.ent.module() is not site_module(sc) for l, r_, u_ in wren if sc.chain()[-1] is not u_.mod)
                                              and occ.name.lower() != occ.ent.name.lower()):
                        key = "use-tree:rename-without-only:alias-not-visible-through-other-modules"
                    elif outcome in ("wrong-file", "wrong-line") and got is not None:
                        g = entity_at(w, got)
                        if g is not None and any(r_.lower() == occ.name.lower() and M.exports(u_.mod).get(r_) is g for l, r_, u_ in wren):
                            key = "use-tree:rename-without-only:remote-name-not-hidden"
                        elif wren and occ.name.lower() != occ.ent.name.lower():
                            # an alias (of any kind) resolved through a USE tree that also holds whole-module renames: the rename maps of all
                            # views of a module are merged, so the alias can be mapped to the remote name of another rename
                            key = "use-tree:rename-without-only:rename-maps-merged-across-views"
                if outcome in ("wrong-file", "wrong-line", "null") and key.startswith("definition:") and sc is not None \
                        and any(v == "private" for m in use_closure(sc) for v in m.reexport_vis.values()):
                    # some module on the USE closure of the site hides a use-associated name with a PRIVATE statement, which the USE tree ignores
                    key = "use-tree:private-statement-on-use-associated-name-ignored"
                if outcome in ("wrong-file", "wrong-line") and key.startswith("definition:"):
                    cause = leak_cause(w, occ, got)
                    if cause == "private-statement-on-use-associated-name-ignored":
                        key = "use-tree:" + cause
                    else:
                        key += ":" + cause
                res.violation(key, f"definition at {occ.file}:{occ.line}:{col} on '{occ.name}' ({occ.ctx}) -> {got or r[0]}, expected {exp[0]}",
                              {"files": witness_files, "site": [occ.file, occ.line, col, occ.name, occ.ctx], "expected": exp, "got": got, "how": hv})
                break
        if i % 60 == 1:
            f0 = w.order[0]
            res.sample({"file": f0, "text": w.files[f0][:600], "sites": len([o for o in w.occs if o.ctx in CTX])}, limit=1)
    finally:
        ws.close()
    return res


def replay(ctx, wit):
    res = Result()
    ws, srv, ev = H.start(wit["files"], nthreads=1)
    try:
        f, ln, col, name, c = wit["site"]
        srv.did_open(ws.uri(f))
        r = srv.request("textDocument/definition", srv.pos(ws.uri(f), ln, col))
        got = None
        if r[0] == "resp" and isinstance(r[2], dict):
            loc = r[2]
            got = [os.path.relpath(H.path_from_uri(loc["uri"]), ws.root), loc["range"]["start"]["line"], loc["range"]["start"]["character"], loc["range"]["end"]["character"]]
        if got not in [list(a) for a in wit["expected"]]:
            res.violation("replayed", f"definition on '{name}' at {f}:{ln}:{col} -> {got}, expected {wit['expected']}", wit)
    finally:
        ws.close()
    return res
