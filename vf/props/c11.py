"""C11 — hover and signature help restate the declaration and its documentation.

Oracle: declarations are generated from a grammar (ground truth = the generated pieces); the hover text is parsed by a small
declaration parser and compared for *equivalence* (type keyword, selector modulo blanks/case and kind=/positional, attribute set
with arguments, name, PARAMETER value, documentation tokens).  Signature help: label argument list and activeParameter at
every cursor position of generated calls (nesting, character literals with commas/parentheses, keyword arguments).
"""
import itertools
import re

from vf.core import Result
from vf import harness as H
from vf import model as M

PROP = "C11"
LEVEL = "exploration"
META = {
    "engine": "model-monitor",
    "technique": "runtime monitor: hover and signatureHelp answers parsed and compared (equivalence, not string equality) with generated declarations, documentation tokens and call-site ground truth; programs validated by gfortran",
    "text": "Modules with generated declarations (8 type keywords x selector forms incl. nested parentheses and *n x permutations of 0-4 attributes x entity-level dimensions/lengths x PARAMETER values) and Doxygen/FORD documentation in every attachment style (trailing documentation also on the last line of a continued declaration) are hovered: the declaration shown must be equivalent to the source one, carry exactly the entity's own documentation tokens, and for procedures list the dummies in declared order with their own declarations. Calls with nested calls, array sections, character literals containing commas/parentheses and keyword arguments are probed at every column for the active parameter. Sampled; each module is compiled by gfortran first. Calls pass required dummies by keyword out of order and literals with odd quotes; multi-entity declarations with statement-level attributes, entity shapes/lengths and EXTERNAL statements.",
    "note": "trusted: the hover declaration parser and the call-site model; equivalence ignores attribute order, blanks and case; attributes outside upstream's supported list (VALUE, VOLATILE, ASYNCHRONOUS, PROTECTED, BIND) and PARAMETER values containing parentheses/brackets/! are exercised as a separate class with recorded findings; cursor positions inside character literals or nested non-procedure parentheses are not judged",
}
RULE = ("modules of 6-14 generated declarations (module level, dummies, locals) + documented procedures + calls; evaluations = hovers and signatureHelp positions compared; "
        "distinct = (declaration text, doc style) and (call text, column) fingerprints")
ASSUME = ["gfortran -std=gnu accepts the module", "documentation blocks are placed immediately before the entity or as trailing !< comments"]


def plan(tier):
    if tier == "quick":
        return {"ncases": 4000, "nshards": 16, "budget_s": 75, "floor": 30000, "stall_s": 60}
    return {"ncases": 30000, "nshards": 16, "budget_s": 1800, "floor": 800000, "stall_s": 300}


TYPES = ["integer", "real", "complex", "logical", "character", "double precision", "type(tt)", "class(tt)"]
UNSUPPORTED = ["value", "volatile", "asynchronous", "protected"]


def gen_decl(rng, name, place, hostile=False):
    """-> dict(text, type, selector, attrs(set of normalised strings), name, value) or None; place in module|dummy|local"""
    ty = rng.choice(TYPES)
    if ty == "class(tt)" and place == "module":
        ty = "type(tt)"
    sel = ""
    if ty in ("integer", "logical"):
        sel = rng.choice(["", "", "(4)", "(kind=8)", "*8" if ty == "integer" else "", "(kind=selected_int_kind(5))" if ty == "integer" else ""])
    elif ty in ("real", "complex"):
        sel = rng.choice(["", "", "(8)", "(kind=4)", "*8" if ty == "real" else "", "(kind=selected_real_kind(6, 30))", "( kind = 8 )"])
    elif ty == "character":
        sel = rng.choice(["", "(len=10)", "(10)", "*10", "(len=5, kind=1)", "( len = 3 )"] + (["(len=*)", "*(*)", "(len=*, kind=1)"] if place == "dummy" else []))
    attrs = []
    pool = ["save", "target"] if place != "dummy" else ["target"]
    if place == "module":
        pool += ["public", "private"]
    if place == "dummy":
        pool += ["optional", rng.choice(["intent(in)", "intent(out)", "intent(inout)", "intent(in out)", "intent( in )"])]
    is_class = ty == "class(tt)"
    dims = None
    r = rng.random()
    if is_class and place != "dummy":
        attrs.append(rng.choice(["allocatable", "pointer"]))
    elif r < 0.25:
        attrs.append(rng.choice(["allocatable", "pointer"]))
        if rng.random() < 0.6:
            dims = rng.choice(["(:)", "(:,:)"])
    elif r < 0.5:
        dims = rng.choice(["(3)", "(2,4)", "(0:5)", "(n1)" if False else "(3,3)"])
    param = False
    if not attrs and not is_class and ty != "type(tt)" and place != "dummy" and rng.random() < 0.3 and not sel.startswith(("(len=*", "*(*)")):
        param = True
    k = rng.randint(0, min(3, len(pool)))
    chosen = rng.sample(pool, k)
    if "save" in chosen and (param or place == "dummy"):
        chosen.remove("save")
    if "public" in chosen and "private" in chosen:
        chosen.remove("private")
    if "intent(out)" in chosen and "optional" in chosen and False:
        pass
    attrs += chosen
    if "pointer" in attrs and "target" in attrs:
        attrs.remove("target")
    if param and "target" in attrs:
        attrs.remove("target")
    if hostile and rng.random() < 0.6:
        u = rng.choice(UNSUPPORTED)
        if u == "value" and place != "dummy":
            u = "volatile"
        if u == "protected" and place != "module":
            u = "volatile"
        if not param and not (u == "value" and (dims or "allocatable" in attrs or "pointer" in attrs or "intent(out)" in attrs or "intent(inout)" in attrs or "intent(in out)" in attrs)):
            attrs.append(u)
    value = None
    if param:
        attrs.append("parameter")
        dims_here = dims
        base = {"integer": ["3", "-2", "2*3+1", "10"], "real": ["1.5", "1.0e-3", "-2.0", "2.0*3.0"], "complex": None, "logical": [".true.", ".false."],
                "character": ["'abc'", "\"a b\"", "'x'"], "double precision": ["1.5d0", "2.0d0"]}[ty]
        if base is None:
            value = "(1.0, 2.0)"
        else:
            value = rng.choice(base)
        if hostile and rng.random() < 0.6:
            value = {"integer": "(3+1)*2", "real": "sin(1.0)", "logical": "(.true.)", "character": "'a!b'", "double precision": "(1.0d0)", "complex": "(1.0, 2.0)"}[ty]
        if dims_here:
            dims = None
    rng.shuffle(attrs)
    ent_dims = dims is not None and rng.random() < 0.5
    ent_len = None
    if ty == "character" and sel in ("", "(len=10)", "(10)") and rng.random() < 0.4 and not param:
        ent_len = rng.choice(["*7", "*3"])
    text = ty + sel
    alist = list(attrs)
    if dims is not None and not ent_dims:
        alist.insert(rng.randint(0, len(alist)), f"dimension{dims}")
    if alist:
        text += ", " + ", ".join(alist)
    text += " :: " + name + (dims if ent_dims else "") + (ent_len or "")
    if value is not None:
        text += rng.choice([" = ", "=", "  =  "]) + value
    exp_attrs = set(norm_attr(a) for a in attrs)
    if dims is not None:
        exp_attrs.add("DIMENSION" + dims.upper().replace(" ", ""))
    return {"text": text, "type": ty.upper(), "selector": sel, "entity_len": ent_len, "attrs": exp_attrs, "name": name, "value": value,
            "hostile_attr": any(a in UNSUPPORTED for a in attrs), "hostile_value": value is not None and re.search(r"[()\[\]!,]", value) is not None}


def norm_attr(a):
    a = re.sub(r"\s+", "", a).upper()
    if a.startswith("INTENT("):
        a = a.replace("INTENT(INOUT)", "INTENT(INOUT)").replace("INTENT(IN OUT)".replace(" ", ""), "INTENT(INOUT)")
    return a


def norm_sel(ty, sel, ent_len):
    """canonical selector: (kind=X) / (len=X[,kind=Y]) / *N"""
    s = re.sub(r"\s+", "", sel or "").lower()
    if ent_len:
        s = ent_len
    if not s:
        return ""
    if s.startswith("*"):
        n = s[1:].strip("()")
        return ("len=" + n) if ty == "CHARACTER" else ("kind=" + n)
    inner = s[1:-1]
    parts, depth, cur = [], 0, ""
    for c in inner:
        if c == "(":
            depth += 1
        elif c == ")":
            depth -= 1
        if c == "," and depth == 0:
            parts.append(cur)
            cur = ""
        else:
            cur += c
    parts.append(cur)
    out = []
    for n, p in enumerate(parts):
        if "=" in p and not p.startswith("selected"):
            out.append(p)
        else:
            key = "len" if (ty == "CHARACTER" and n == 0) else "kind"
            out.append(f"{key}={p}")
    return ",".join(sorted(out))


DECL_RE = re.compile(r"^\s*(?P<head>.*?)\s*::\s*(?P<name>[\w$]+)\s*(?:=\s*(?P<val>.*))?$")


def split_top(s):
    parts, depth, cur = [], 0, ""
    for c in s:
        if c in "([":
            depth += 1
        elif c in ")]":
            depth -= 1
        if c == "," and depth == 0:
            parts.append(cur.strip())
            cur = ""
        else:
            cur += c
    parts.append(cur.strip())
    return parts


def parse_hover_decl(line):
    m = DECL_RE.match(line)
    if not m:
        return None
    parts = split_top(m.group("head"))
    spec = parts[0]
    sm = re.match(r"^(DOUBLE\s+PRECISION|TYPE\s*\([^)]*\)|CLASS\s*\([^)]*\)|[A-Za-z]+)\s*(.*)$", spec, re.I)
    ty = re.sub(r"\s+", " ", sm.group(1).upper()).replace("TYPE (", "TYPE(").replace("CLASS (", "CLASS(")
    ty = re.sub(r"\s*\(\s*", "(", ty)
    sel = sm.group(2).strip()
    return {"type": ty, "sel": sel, "attrs": set(norm_attr(a) for a in parts[1:] if a), "name": m.group("name"), "val": (m.group("val") or "").strip() or None}


def hover_parts(h):
    """-> (code lines, doc text)"""
    if not h:
        return None, ""
    v = h["contents"]["value"] if isinstance(h.get("contents"), dict) else str(h.get("contents"))
    m = re.match(r"```\w*\n(.*?)\n```(.*)$", v, re.S)
    if not m:
        return None, v
    return m.group(1).split("\n"), m.group(2)


def compare_decl(exp, got):
    """None if equivalent else (field, detail)"""
    if got is None:
        return ("unparsable", "")
    if got["name"].lower() != exp["name"].lower():
        return ("name", f"{got['name']} != {exp['name']}")
    ety = exp["type"].replace(" ", "")
    if got["type"].replace(" ", "").upper() != ety:
        return ("type", f"{got['type']} != {exp['type']}")
    base = exp["type"].split("(")[0]
    if norm_sel(base, got["sel"], None) != norm_sel(base, exp["selector"], exp["entity_len"]):
        return ("selector", f"{got['sel']!r} != {exp['selector']!r}{exp['entity_len'] or ''}")
    ga = {a for a in got["attrs"]}
    ea = set(exp["attrs"])
    if ga != ea:
        return ("attributes", f"shown {sorted(ga)} declared {sorted(ea)}")
    if exp["value"] is not None:
        gv = re.sub(r"\s+", "", got["val"] or "")
        if gv != re.sub(r"\s+", "", exp["value"]):
            return ("parameter-value", f"shown {got['val']!r} declared {exp['value']!r}")
    return None


def gen_module(rng, hostile):
    """-> (text, entities [(line, col, exp, doc tokens)], procs, calls)"""
    lines = ["module c11m", "  implicit none", "  type :: tt", "    integer :: zc", "  end type tt"]
    ents = []
    tok = [0]

    def newtok():
        tok[0] += 1
        return f"DOC{tok[0]:03d}"

    def emit_decl(d, ind):
        """with a documentation style"""
        style = rng.choice(["none", "before", "before2", "trailing", "after"])
        docs = []
        if style in ("before", "before2", "before+trailing"):
            t = newtok()
            lines.append(f"{ind}!> {t} text")
            docs.append(t)
            if style == "before2":
                t2 = newtok()
                lines.append(f"{ind}!! {t2} more")
                docs.append(t2)
        text = ind + d["text"]
        if style in ("trailing", "before+trailing"):
            t = newtok()
            text += f" !< {t} tr"
            docs.append(t)
        ln = len(lines)
        if style == "trailing" and rng.random() < 0.35:
            # the statement continued over two lines, the trailing documentation on its last line
            cut = text.index(":: " + d["name"])
            lines.append(text[:cut].rstrip() + " &")
            text = ind + "    " + text[cut:]
            ln = len(lines)
        lines.append(text)
        if style == "after":
            t = newtok()
            lines.append(f"{ind}!< {t} after")
            docs.append(t)
        col = text.index(":: " + d["name"]) + 3
        ents.append((ln, col, d, docs))

    def emit_multi(ind, base):
        """one statement declaring several entities (no documentation: which entity a block belongs to would be a guess), optionally followed
        by a separate EXTERNAL statement naming one of them: every entity keeps the statement's type and attributes and only its own extras"""
        ty = rng.choice(["real", "integer", "logical", "real(8)", "double precision"])
        sel = ""
        if "(" in ty:
            ty, sel = "real", "(8)"
        form = rng.randrange(3)
        names = [f"{base}{c}" for c in "abc"[:rng.randint(2, 3)]]
        if form == 0:
            # plain siblings + EXTERNAL for one of them
            attrs, dims, ext = [], {}, rng.choice(names)
        elif form == 1:
            # statement-level attribute, entity-level dimensions for some
            attrs, ext = rng.choice([["save"], ["target"], ["dimension(2)"], ["save", "target"]]), None
            dims = {nm: rng.choice(["(3)", "(2,2)"]) for nm in names if rng.random() < 0.5}  # an entity's own shape overrides DIMENSION(...) of the statement
        else:
            attrs, dims, ext = ["parameter"], {}, None
            ty, sel = "integer", ""
        text = ind + ty + sel + ("".join(", " + a for a in attrs)) + " :: " + ", ".join(nm + dims.get(nm, "") + (f" = {k + 1}" if form == 2 else "") for k, nm in enumerate(names))
        ln = len(lines)
        lines.append(text)
        if ext is not None:
            lines.append(ind + rng.choice(["external ", "external :: ", "EXTERNAL "]) + ext)
        for k, nm in enumerate(names):
            ea = set(norm_attr(a) for a in attrs if not a.startswith("dimension")) | ({"DIMENSION(2)"} if "dimension(2)" in attrs and nm not in dims else set())
            if nm in dims:
                ea.add("DIMENSION" + dims[nm])
            if nm == ext:
                ea.add("EXTERNAL")
            d = {"text": text.strip(), "type": ty.upper(), "selector": sel, "entity_len": None, "attrs": ea, "name": nm, "value": str(k + 1) if form == 2 else None,
                 "hostile_attr": False, "hostile_value": False, "multi": True}
            ents.append((ln, re.search(r"\b" + nm + r"\b", text).start(), d, []))

    n = 0
    for _ in range(rng.randint(2, 5)):
        n += 1
        d = gen_decl(rng, f"mv{n}", "module", hostile)
        emit_decl(d, "  ")
    if rng.random() < 0.4:
        n += 1
        emit_multi("  ", f"mm{n}")
    lines.append("contains")
    procs = []
    for pn in range(rng.randint(1, 2)):
        nargs = rng.randint(1, 4)
        args = [f"a{pn}{k}" for k in range(nargs)]
        pdocs = []
        if rng.random() < 0.6:
            t = newtok()
            lines.append(f"  !> {t} proc")
            pdocs.append(t)
        hl = len(lines)
        kind = rng.choice(["subroutine", "function"])
        if kind == "function":
            lines.append(f"  function pr{pn}({', '.join(args)}) result(rr{pn})")
        else:
            lines.append(f"  subroutine pr{pn}({', '.join(args)})")
        argd = []
        order = args[:]
        rng.shuffle(order)
        for a in order:
            d = gen_decl(rng, a, "dummy", hostile)
            emit_decl(d, "    ")
            argd.append(d)
        if kind == "function":
            lines.append(f"    integer :: rr{pn}")
        for _ in range(rng.randint(0, 3)):
            n += 1
            d = gen_decl(rng, f"lv{n}", "local", hostile)
            emit_decl(d, "    ")
        if rng.random() < 0.4:
            n += 1
            emit_multi("    ", f"lm{n}")
        if rng.random() < 0.6:
            # documentation-style comments on executable statements document nothing: their tokens must not show up in any hover
            lines.append(f"    continue {rng.choice(['!<', '!!', '!>'])} {newtok()} stray")
        if kind == "function":
            lines.append(f"    rr{pn} = 0" + (f" !< {newtok()} stray" if rng.random() < 0.5 else ""))
        lines.append(f"  end {kind} pr{pn}")
        procs.append({"name": f"pr{pn}", "kind": kind, "args": args, "line": hl, "col": lines[hl].index(f"pr{pn}"), "decls": {d["name"]: d for d in argd}, "docs": pdocs})
    lines.append("end module c11m")
    return "\n".join(lines) + "\n", ents, procs


SIG_MOD = """module c11s
  implicit none
  type :: st
    integer :: zz
  contains
    procedure :: meth => st_meth
  end type st
contains
  subroutine target_sub(first, second, third, fourth)
    integer :: first
    real :: second(3)
    character(len=*), optional :: third
    logical, optional :: fourth
  end subroutine target_sub
  integer function ff(x, y)
    integer :: x, y
    ff = x + y
  end function ff
  subroutine st_meth(self, k, m)
    class(st) :: self
    integer :: k, m
  end subroutine st_meth
  subroutine caller()
    type(st) :: o
    integer :: q, arr(3,3)
    real :: rr(3)
@CALLS@
  end subroutine caller
end module c11s
"""
ARG1 = ["1", "q", "ff(1, 2)", "arr(1,2)", "ff(ff(1, 2), q)", "(q+1)*2", "arr(q, 1)"]
ARG3 = ["'abc'", "\"a,b\"", "'x(y'", "\"p)q,r\"", "'it''s, ok'", "\"it's broken\"", "'a 5\" pipe'", "\"don't (\""]


def gen_calls(rng):
    """-> [(text, name, params, passed_object_dropped)]"""
    out = []
    for _ in range(rng.randint(2, 5)):
        r = rng.random()
        if r < 0.25:
            # required dummies passed by keyword, out of their declared order
            form = rng.randrange(5)
            a1, a2 = rng.choice(ARG1), rng.choice(ARG1)
            if form == 0:
                out.append((f"    call target_sub(second=rr, first={a1})", "target_sub", ["first", "second", "third", "fourth"]))
            elif form == 1:
                out.append((f"    call target_sub({a1}, third={rng.choice(ARG3)}, second=rr)", "target_sub", ["first", "second", "third", "fourth"]))
            elif form == 2:
                out.append((f"    call target_sub(fourth=.true., second = rr, first = {a1})", "target_sub", ["first", "second", "third", "fourth"]))
            elif form == 3:
                out.append((f"    q = ff(y={a1}, x={a2})", "ff", ["x", "y"]))
            else:
                out.append((f"    call o%meth(m={a1}, k={a2})", "meth", ["k", "m"]))
        elif r < 0.6:
            parts = [rng.choice(ARG1), "rr"]
            if rng.random() < 0.7:
                parts.append(rng.choice(ARG3) if rng.random() < 0.6 else "third=" + rng.choice(ARG3))
                if rng.random() < 0.6:
                    parts.append(rng.choice(["fourth=.true.", ".false.", "fourth = .false."]))
            elif rng.random() < 0.5:
                parts.append("fourth=.true.")
            out.append(("    call target_sub(" + ", ".join(parts) + ")", "target_sub", ["first", "second", "third", "fourth"]))
        elif r < 0.8:
            out.append((f"    q = ff({rng.choice(ARG1)}, {rng.choice(ARG1)})", "ff", ["x", "y"]))
        else:
            out.append((f"    call o%meth({rng.choice(ARG1)}, m={rng.choice(ARG1)})", "meth", ["k", "m"]))
    return out


def expected_active(line, col, name, params):
    """model of the call site: -> (callee at depth 1, index) or None if the position is not judged"""
    # find the innermost open call at col, outside strings
    stack = []
    instr = None
    i = 0
    while i < col:
        c = line[i]
        if instr:
            if c == instr:
                instr = None
        elif c in "'\"":
            instr = c
        elif c == "(":
            m = re.search(r"([A-Za-z_]\w*)\s*$", line[:i])
            stack.append((m.group(1) if m else None, i))
        elif c == ")":
            if stack:
                stack.pop()
        i += 1
    if instr or not stack:
        return None
    callee, start = stack[-1]
    seg = line[start + 1:col]
    # commas at depth 0 of seg, outside strings
    depth, instr, commas, last = 0, None, 0, 0
    starts = [0]
    for k, c in enumerate(seg):
        if instr:
            if c == instr:
                instr = None
        elif c in "'\"":
            instr = c
        elif c in "([":
            depth += 1
        elif c in ")]":
            depth -= 1
        elif c == "," and depth == 0:
            commas += 1
            last = k + 1
            starts.append(last)
    cur = seg[last:]
    prev = [seg[a:b] for a, b in zip(starts, starts[1:])]
    prev_kw = [(re.match(r"^\s*([A-Za-z_]\w*)\s*=(?!=)", a) or [None, None])[1] for a in prev]
    return callee, commas, cur, prev_kw


def run_case(ctx, i, rng):
    res = Result()
    hostile = rng.random() < 0.2
    text, ents, procs = gen_module(rng, hostile)
    if M.have_gfortran():
        ok, err = M.gfortran_check({"c11m.f90": text}, ["c11m.f90"], std="gnu")
        if not ok:
            res.count("generator_rejects")
            return res
    calls = gen_calls(rng)
    sig_text = SIG_MOD.replace("@CALLS@", "\n".join(c[0] for c in calls))
    ws, srv, ev = H.start({"c11m.f90": text, "c11s.f90": sig_text}, args=["--use_signature_help"], nthreads=1)
    try:
        uri = ws.uri("c11m.f90")
        srv.did_open(uri)
        res.kind("class:hostile" if hostile else "class:supported")
        all_tokens = {t for _, _, _, docs in ents for t in docs} | {t for p in procs for t in p["docs"]}
        for ln, col, d, docs in ents:
            r = srv.request("textDocument/hover", srv.pos(uri, ln, col))
            res.count("evaluations")
            res.seen(d["text"], tuple(docs))
            wit = {"module": text, "line": ln, "col": col, "declaration": d["text"], "docs": docs}
            if r[0] != "resp" or not r[2]:
                res.violation("hover:none", f"no hover on {d['text']!r}: {r[:3]}", wit)
                continue
            code, doc = hover_parts(r[2])
            got = parse_hover_decl(code[0]) if code else None
            diff = compare_decl(d, got)
            if diff:
                key = f"hover:{diff[0]}"
                if diff[0] == "attributes" and d["hostile_attr"]:
                    # the attribute list is cut at the first attribute outside upstream's keyword table
                    key = "hover:unsupported-attribute-dropped"
                elif diff[0] == "parameter-value" and d["hostile_value"]:
                    key = "hover:parameter-value-with-parentheses-or-special-characters"
                elif d["hostile_attr"] or d["hostile_value"]:
                    key += ":hostile-declaration"
                res.violation(key, f"hover of {d['text']!r} shows {code[0] if code else None!r}: {diff[1]}", wit)
                continue
            toks = re.findall(r"DOC\d{3}", doc)
            if toks != docs:
                foreign = [t for t in toks if t not in docs]
                key = "hover:doc:" + ("foreign-token" if foreign else "missing-token")
                res.violation(key, f"hover of {d['text']!r} carries documentation tokens {toks}, the entity's are {docs}", wit)
        for p in procs:
            r = srv.request("textDocument/hover", srv.pos(uri, p["line"], p["col"] + 1))
            res.count("evaluations")
            wit = {"module": text, "procedure": p["name"]}
            if r[0] != "resp" or not r[2]:
                res.violation("hover:procedure:none", f"no hover on procedure {p['name']}", wit)
                continue
            code, doc = hover_parts(r[2])
            hm = re.match(r"^\s*(?:[A-Za-z ()=*\w]+?\s)?(SUBROUTINE|FUNCTION)\s+(\w+)\s*\(([^)]*)\)", code[0], re.I) if code else None
            if not hm:
                res.violation("hover:procedure:header", f"hover of {p['name']}: {code[0] if code else None!r}", wit)
                continue
            shown = [a.split("=")[0].strip().lower() for a in hm.group(3).split(",") if a.strip()]
            if shown != p["args"]:
                res.violation("hover:procedure:argument-order", f"{p['name']}: shown {shown}, declared {p['args']}", wit)
                continue
            arg_lines = [parse_hover_decl(l) for l in code[1:] if "::" in l]
            names = [a["name"].lower() for a in arg_lines if a]
            if [n_ for n_ in names if n_ in p["args"]] != p["args"]:
                res.violation("hover:procedure:argument-declarations-order", f"{p['name']}: argument declarations listed as {names}, declared order {p['args']}", wit)
                continue
            for a in arg_lines:
                if a and a["name"].lower() in p["decls"]:
                    d = p["decls"][a["name"].lower()]
                    diff = compare_decl(d, a)
                    if diff and not (d["hostile_attr"] or d["hostile_value"]):
                        res.violation(f"hover:procedure:argument-{diff[0]}", f"{p['name']}({a['name']}): {diff[1]}", wit)
                        break
            toks = [t for t in re.findall(r"DOC\d{3}", doc)]
            own = p["docs"]
            argdocs = [t for e in ents for t in e[3] if e[2]["name"] in p["args"]]
            foreign = [t for t in toks if t not in own and t not in argdocs]
            if foreign or any(t not in toks for t in own):
                res.violation("hover:procedure:doc", f"{p['name']}: documentation tokens {toks}; own {own}; arguments' {argdocs}", wit)
        # signature help
        suri = ws.uri("c11s.f90")
        srv.did_open(suri)
        slines = sig_text.split("\n")
        for (ctext, name, params) in calls:
            ln = slines.index(ctext)
            for col in range(len(ctext) - len(ctext.lstrip()) + 1, len(ctext)):
                em = expected_active(ctext, col, name, params)
                if em is None:
                    continue
                callee, commas, cur, prev_kw = em
                if callee is None or callee.lower() != name.lower():
                    continue  # nested call or non-procedure parentheses: not judged here
                r = srv.request("textDocument/signatureHelp", srv.pos(suri, ln, col))
                res.count("evaluations")
                res.count("signature_positions")
                res.seen("sig", ctext, col)
                wit = {"call": ctext, "col": col, "prefix": ctext[:col]}
                if r[0] != "resp" or not r[2]:
                    res.violation("signature:none", f"no signature help at {ctext[:col]!r}|", wit)
                    break
                sigs = r[2].get("signatures") or []
                lab = sigs[0]["label"] if sigs else ""
                lm = re.match(r"^\s*(\w+)\s*\((.*)\)\s*$", lab)
                shown = [a.split("=")[0].strip().lower() for a in lm.group(2).split(",")] if lm else None
                if shown != params:
                    res.violation("signature:label", f"label {lab!r}, expected arguments {params}", wit)
                    break
                km = re.match(r"^\s*(\w+)\s*=", cur)
                if any(prev_kw) and not km:
                    # after a keyword argument only keyword arguments may follow: until `name=` is typed the parameter is determined only
                    # when every reading agrees (slot count, successor of the last keyword, first parameter not yet passed)
                    filled = set()
                    for n_, kw_ in enumerate(prev_kw):
                        filled.add(params.index(kw_.lower()) if kw_ and kw_.lower() in params else n_)
                    last_kw = [k_ for k_ in prev_kw if k_][-1].lower()
                    cands = {commas, params.index(last_kw) + 1 if last_kw in params else commas, min([n_ for n_ in range(len(params) + 1) if n_ not in filled])}
                    if len(cands) > 1:
                        res.count("signature_positions_undetermined")
                        continue
                exp_idx = params.index(km.group(1).lower()) if km and km.group(1).lower() in params else commas
                # while the keyword is being typed (no '=' yet) the position counts
                if r[2].get("activeParameter") != exp_idx:
                    partial_kw = re.match(r"^\s*[A-Za-z_]\w*\s*$", cur) and any(pn.startswith(cur.strip().lower()) for pn in params)
                    if partial_kw and r[2].get("activeParameter") in (commas, exp_idx):
                        continue
                    res.violation("signature:active-parameter" + (":keyword" if km else ":positional"),
                                  f"at {ctext[:col]!r}| activeParameter={r[2].get('activeParameter')}, expected {exp_idx} ({params[exp_idx] if exp_idx < len(params) else 'beyond list'})", wit)
                    break
        if i % 100 == 0:
            res.sample({"module_head": text[:500], "calls": [c[0] for c in calls][:3]}, limit=1)
    finally:
        ws.close()
    return res
