"""C14 — fixed-form sources are recognised and understood like their free-form twin.

Generated programs are rendered in free form and, by a token-level converter, in fixed form (column-7 statements, comment
flags C c * ! d D, continuation marks in column 6 with breaks at token boundaries and for lines over 72 columns, numeric
labels, labelled DO with CONTINUE / END DO terminal statements).  dump(.f twin) must equal dump(.f90 twin) modulo the line
map; the fixed rendering must be classified as fixed form and every free-form layout of C13 as free form.
"""
import os
import re

from vf.core import Result
from vf import harness as H
from vf import layout as LY
from vf import model as M
from vf.corpus import sample_sources
from vf.props.c13 import take_dump, OPS

PROP = "C14"
LEVEL = "exploration"
META = {
    "engine": "differential",
    "technique": "runtime monitor: paired free/fixed rendering of generated programs, outline / definition targets / diagnostics of the real server compared modulo the line map; form classification observed on the hooked file object for fixed renderings and for C13's free-form layouts",
    "text": "Every generated multi-file program is indexed twice, as free-form .f90 files and as their fixed-form .f twins produced by a token-level converter (random comment flags, continuation marks, forced and overlong-line continuation breaks, labels, labelled DO); outline, definition target of every identifier and diagnostics must agree modulo the line map, every twin must be classified fixed and every free layout (C13 transformations of samples and generated programs) free. Sampled programs and layouts. The converter also emits tight breaks, comment lines ending in &, comment/blank lines between continuation lines and comment text with ';'; a form-transition sub-check replaces the text of an open document by its twin of the other form through one ranged change.",
    "note": "trusted: the converter and its line/token map; programs contain no character literal spanning a break; form classification is read from the server's file object; the known content-heuristic misclassification of unindented free-form text is a recorded finding",
}
RULE = ("generated workspaces x fixed rendering choices (comment flag, indentation after column 6, continuation mark and break position, labelled DO); plus "
        "free-form layouts (C13 operations) of samples/generated programs for the 'never classified as fixed' clause; evaluations = compared items + "
        "classified files; distinct = (program, rendering, item)")
ASSUME = ["fixed-form twins keep trailing ! comments (Fortran 90 fixed form)", "identifiers are not split across lines"]


def plan(tier):
    if tier == "quick":
        return {"ncases": 800, "nshards": 16, "budget_s": 75, "floor": 30000, "stall_s": 60}
    return {"ncases": 24000, "nshards": 16, "budget_s": 1800, "floor": 1000000, "stall_s": 300}


def form_transition(res, rng, free_text, fixed_text, name):
    """the content of an open document is replaced by its twin in the other source form through one ranged change (a paste over the whole
    text, not an end-of-file append): classification and outline must be those of a fresh load of the new content, in both directions"""
    def outline_of(srv, uri):
        r = srv.request("textDocument/documentSymbol", {"textDocument": {"uri": uri}})
        return sorted((s_["name"].lower(), s_["kind"]) for s_ in r[2]) if r[0] == "resp" and isinstance(r[2], list) else None

    def fresh(text):
        ws, srv, ev = H.start({name: text}, args=["--incremental_sync"], nthreads=1)
        try:
            srv.did_open(ws.uri(name))
            return getattr(srv.ls.workspace.get(ws.path(name)), "fixed", None), outline_of(srv, ws.uri(name))
        finally:
            ws.close()

    want = {"free": fresh(free_text), "fixed": fresh(fixed_text)}
    start = rng.choice(["free", "fixed"])
    texts = {"free": free_text, "fixed": fixed_text}
    ws, srv, ev = H.start({name: texts[start]}, args=["--incremental_sync"], nthreads=1)
    try:
        uri, path = ws.uri(name), ws.path(name)
        srv.did_open(uri)
        cur = start
        for step in range(2):
            nxt = "fixed" if cur == "free" else "free"
            ls = srv.lines_of(path)
            whole = {"start": {"line": 0, "character": 0}, "end": {"line": len(ls) - 1, "character": len(ls[-1])}}
            srv.did_change(uri, [{"range": whole, "text": texts[nxt]}])
            res.count("evaluations")
            res.kind(f"transition:{cur}->{nxt}")
            got = (getattr(srv.ls.workspace.get(path), "fixed", None), outline_of(srv, uri))
            if "\n".join(srv.lines_of(path)) != texts[nxt].rstrip("\n") and "\n".join(srv.lines_of(path)) != texts[nxt]:
                return  # buffer fidelity is C02's business
            if got != want[nxt]:
                res.violation(f"transition:{cur}-to-{nxt}:" + ("classification" if got[0] != want[nxt][0] else "outline"),
                              f"after replacing the {cur}-form text of an open document by its {nxt}-form twin through one ranged change: fixed={got[0]}, {len(got[1] or [])} outline entries; "
                              f"a fresh load of the same text gives fixed={want[nxt][0]}, {len(want[nxt][1] or [])} entries", {"name": name, "free": free_text, "fixed": fixed_text, "start": start})
                return
            cur = nxt
    finally:
        ws.close()


def run_case(ctx, i, rng):
    res = Result()
    if i % 4 == 3:
        return free_never_fixed(ctx, i, rng, res)
    w = M.gen_workspace(rng, style=None, tight=rng.random() < 0.3)
    if M.have_gfortran():
        ok, err = M.gfortran_check(w.files, w.order)
        if not ok:
            res.count("generator_rejects")
            return res
    free_files = dict(w.files)
    fixed_files, lays, lexed = {}, {}, {}
    hostile = rng.random() < 0.2
    res.kind("class:hostile" if hostile else "class:conservative")
    for f, t in w.files.items():
        lines = LY.lex(t)
        lay = LY.to_fixed(lines, rng, conservative=not hostile)
        if lay is None:
            res.count("not_convertible")
            return res
        f2 = f[:-4] + rng.choice([".f", ".F77" if False else ".f", ".for"])
        fixed_files[f2] = lay.text("\n")
        lays[f] = (f2, lay)
        lexed[f] = lines
    if not hostile and i % 2 == 0:
        t0 = w.order[0]
        form_transition(res, rng, free_files[t0], fixed_files[lays[t0][0]], "tr_" + os.path.basename(t0))
    for target in w.order:
        f2, lay = lays[target]
        ids = LY.idents(lexed[target])
        if len(ids) > 200:
            ids = rng.sample(ids, 200)
        q0 = {(ol, oc): (ol, oc) for (_, _, _, ol, oc) in ids}
        q1 = {k: lay.pos[k] for k in q0 if k in lay.pos}
        base = take_dump(free_files, target, q0)
        got = take_dump(fixed_files, f2, q1)
        wit = {"target": target, "free": free_files, "fixed": fixed_files, "hostile": hostile}
        HK = "layout:split-of-structural-statement" if hostile else None
        res.count("evaluations")
        res.seen(i, target, "classify")
        if got.get("fixed") is not True:
            res.violation("detect:fixed-twin-classified-as-free", f"{f2} (fixed rendering of {target}) is classified as free form", wit)
            continue
        if base.get("fixed") is not False:
            res.violation("detect:free-twin-classified-as-fixed", f"{target} (generated free-form, indented) is classified as fixed form", wit)
            continue
        stem = lay.stem

        def back(l):
            return stem[l] if 0 <= l < len(stem) else set()

        def fmap(fname):
            return lays[fname][0] if fname in lays else fname
        # outline
        bo, go = base["outline"] or [], got["outline"] or []
        used = set()
        bad = False
        if len(bo) != len(go):
            miss = sorted(set(x[:3] for x in bo) - set(x[:3] for x in go))[:4]
            extra = sorted(set(x[:3] for x in go) - set(x[:3] for x in bo))[:4]
            res.violation(HK or "fixed:outline:entry-count", f"{target}: {len(bo)} outline entries in free form, {len(go)} in fixed form; missing {miss} extra {extra}", wit)
            continue
        for b in bo:
            res.count("evaluations")
            cand = [n for n, g in enumerate(go) if n not in used and g[:3] == b[:3] and b[3] in back(g[3]) and b[4] in back(g[4])]
            if not cand:
                near = [(g, sorted(back(g[3])), sorted(back(g[4]))) for g in go if g[0] == b[0]]
                kind = "end-line" if any(g[0][:3] == b[:3] and b[3] in g[1] for g in near) else "start-line"
                res.violation(HK or f"fixed:outline:{kind}", f"{target}: outline entry {b} (free) vs {near[:2]} (fixed, with original lines)", wit)
                bad = True
                break
            used.add(cand[0])
        if bad:
            continue
        # definitions
        for k in q1:
            res.count("evaluations")
            res.seen(i, target, k)
            b, g = base["defs"].get(k), got["defs"].get(k)
            same = False
            if b is None or g is None or b[0] == "ERROR" or g[0] == "ERROR":
                same = (b is None and g is None)
            elif fmap(b[0]) == g[0] and b[2] == g[2]:
                tl = lays.get(b[0])
                same = (b[1] in (tl[1].stem[g[1]] if tl and g[1] < len(tl[1].stem) else set()))
            if not same:
                nl = q1[k][0]
                multi = sum(1 for st_ in stem if st_ == stem[nl]) > 1
                key = "fixed:definition-target" + (":query-in-continued-statement" if multi else "")
                res.violation(HK or key, f"{target}: definition at free {k} -> {b}; at fixed {q1[k]} -> {g}", wit)
                bad = True
                break
        if bad:
            continue
        bd, gd = base["diags"], got["diags"]
        if (bd is None) != (gd is None) or (bd is not None and len(bd) != len(gd)):
            res.violation(HK or "fixed:diagnostics:count", f"{target}: diagnostics free {bd} fixed {gd}", wit)
            continue
        used = set()
        for b in bd or []:
            res.count("evaluations")
            cand = [n for n, g in enumerate(gd) if n not in used and g[0] == b[0] and g[2] == b[2] and b[1] in back(g[1])]
            if not cand:
                res.violation(HK or "fixed:diagnostics:differs", f"{target}: diagnostic {b} (free) has no counterpart in {gd[:4]}", wit)
                break
            used.add(cand[0])
    if i % 100 == 0:
        f0 = w.order[0]
        res.sample({"free_head": free_files[f0][:300], "fixed_head": fixed_files[lays[f0][0]][:400]}, limit=1)
    return res


def free_never_fixed(ctx, i, rng, res):
    """every free-form layout must be classified as free form"""
    from fortls.helper_functions import detect_fixed_format
    smp = [(p, t) for p, t in sample_sources() if isinstance(t, str) and not re.search(r"\.(f|for|ftn|f77)$", p, re.I) and not p.startswith("fixed") and "\t" not in t]
    for _ in range(6):
        if rng.random() < 0.5:
            p, t = rng.choice(smp)
        else:
            w = M.gen_workspace(rng, style=M.Style(rng))
            p = rng.choice(w.order)
            t = w.files[p]
        lines = LY.lex(t)
        ops = set(rng.sample(OPS, rng.randint(0, 4)))
        cm = [o for o in ops if o.startswith("case-")]
        for o in cm[1:]:
            ops.discard(o)
        lay = LY.render(lines, rng, ops, "\n")
        text = lay.text("\n")
        res.count("evaluations")
        res.seen(i, p, sorted(ops), text)
        res.kind("free-layout-classified")
        out_lines = text.split("\n")
        if detect_fixed_format(out_lines):
            # structural predicate of the known heuristic gap: no line indented by 1-4 blanks before a letter, no declaration starting before
            # column 6, no trailing &
            unindented = not any(re.match(r"[ ]{1,4}[A-Za-z]", l) for l in out_lines)
            key = "detect:unindented-free-form-without-declarations" if unindented else "detect:free-form-classified-as-fixed"
            res.violation(key, f"free-form layout of {p} (ops {sorted(ops)}) is classified as fixed form", {"file": p, "ops": sorted(ops), "text": text})
    return res
