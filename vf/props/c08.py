"""C08 — preprocessor regions and macro table match a reference C preprocessor; macro uses are expanded exactly.

Oracle: vf/ppmodel.py (70-line model of conditional inclusion), itself validated against the real `cpp` per case
(disagreement => that case is inconclusive, never a violation).  Observations: hooked preprocess_file() result (skip
regions, macro table, expanded lines) and, at the protocol level, which marker subroutines appear in documentSymbol.
"""
import itertools
import json
import os
import re

from vf.core import Result
from vf import harness as H
from vf import ppmodel as P

PROP = "C08"
LEVEL = "exploration"
META = {
    "engine": "model-monitor",
    "technique": "runtime monitor: reference conditional-inclusion/macro model (cross-validated against the real cpp on every case) compared with the hooked preprocess_file() regions, macro table and expanded lines, and with documentSymbol at the protocol level",
    "text": "Conditional skeletons (systematic family: chain shapes x condition catalogue x all subsets of initial definitions, enumerated completely; plus random skeletons up to 40 directives / nesting 4 over four names with interleaved #undef/#define) and macro-use files (object- and function-like macros whose bodies contain backslashes, quotes and regex metacharacters) are preprocessed and indexed by the real code; active marker set, macro table at EOF, outline markers and expanded lines must equal the reference model's. The model is checked against cpp on each case.",
    "note": "trusted: the reference model + GNU cpp as its cross-check; stated restrictions: macro bodies mention no other macro, body-less macros are not evaluated in #if, uses are outside character literals, function-like invocations have blank-free arguments without nested commas, one invocation per macro per line and no ')' after it",
}
RULE = ("(skeleton, initial definitions) pairs; systematic: shapes {if, if-else, if-elif, if-elif-else, if-elif-elif-else, nested x2} x conditions from a 40-entry "
        "catalogue over names A,B x all 9 valued subsets of {A,B}; random: 3-40 directives, nesting <=4, names A-D, values 0-3, #ifdef/#ifndef/#if/#elif, "
        "#undef+#define in active and inactive regions; macro-use files: 1-5 macros x 2-8 use lines; evaluations = files preprocessed and compared; "
        "distinct = (skeleton text, definitions) fingerprints")
ASSUME = list(META["note"].split("; stated restrictions: ")[1].split(", "))


def plan(tier):
    if tier == "quick":
        return {"ncases": 640, "nshards": 16, "budget_s": 75, "floor": 3000, "stall_s": 60}
    return {"ncases": 30000, "nshards": 16, "budget_s": 1500, "floor": 100000, "stall_s": 240}


NAMES = ["A", "B", "C", "D"]
ATOMS2 = ["defined(A)", "defined(B)", "defined A", "defined B", "!defined(A)", "!defined B", "A", "B", "A == 1", "B > 1", "A != B", "A >= 2", "B <= 0", "!A", "1", "0"]
CONDS = ATOMS2 + [
    "defined(A) && defined(B)", "defined(A) || defined(B)", "defined A && defined B", "(defined A || defined B)", "(defined A) && (defined B)",
    "(1) || (defined A)", "!defined(A) && !defined(B)", "!(defined(A) || defined(B))", "defined(A) && (B > 1)", "(defined(A) && A == 1) || (defined B && B == 2)",
    "!A == 1", "A && B", "A || B", "(A + B) > 2", "A * B == 2", "A - B < 0", "defined(A) && !defined(B) || defined(B) && !defined(A)", "((defined(A)))",
    "!(A > 1) && (B < 3)", "A == 1 && B == 2 || !defined(A)", "defined( A )", "defined ( B )", "!defined A || B", "(defined A || defined B) && 1",
]


def cond_ok_for(cond, valued, bodyless):
    """a condition is in the quantifier if it does not evaluate a body-less macro as a value"""
    stripped = re.sub(r"defined\s*\(?\s*\w+\s*\)?", "", cond)
    return not any(re.search(rf"\b{n}\b", stripped) for n in bodyless)


def systematic_cases():
    """complete enumeration of the systematic family (used round-robin by case index)"""
    shapes = ["if", "if-else", "if-elif", "if-elif-else", "if-elif-elif-else", "nested-then", "nested-else"]
    defsets = []
    for a in (None, "1", "2"):
        for b in (None, "0", "2"):
            d = {}
            if a is not None:
                d["A"] = a
            if b is not None:
                d["B"] = b
            defsets.append(d)
    return shapes, defsets


def marker(k):
    return [f"  subroutine mk_{k}()", f"  end subroutine mk_{k}"]


class Builder:
    def __init__(self):
        self.lines = ["module ppm", "contains"]
        self.k = 0
        self.marker_line = {}

    def mark(self):
        self.k += 1
        self.marker_line[self.k] = len(self.lines)
        self.lines += marker(self.k)

    def d(self, text):
        self.lines.append(text)

    def done(self):
        self.lines.append("end module ppm")
        return self.lines


def build_shape(shape, conds):
    b = Builder()
    b.mark()
    c = iter(conds)
    if shape.startswith("nested"):
        b.d("#if " + next(c)); b.mark()
        if shape == "nested-else":
            b.d("#else"); b.mark()
        b.d("#if " + next(c)); b.mark(); b.d("#elif " + next(c)); b.mark(); b.d("#else"); b.mark(); b.d("#endif"); b.mark()
        if shape == "nested-then":
            b.d("#else"); b.mark()
        b.d("#endif")
    else:
        parts = shape.split("-")
        b.d("#if " + next(c)); b.mark()
        for p in parts[1:]:
            if p == "elif":
                b.d("#elif " + next(c))
            else:
                b.d("#else")
            b.mark()
        b.d("#endif")
    b.mark()
    return b


def random_skeleton(rng):
    b = Builder()
    depth = 0
    state = []  # per level: has_else
    n = rng.randint(3, 40)
    b.mark()
    bodyless_possible = set()
    for _ in range(n):
        r = rng.random()
        if r < 0.3 and depth < 4:
            k = rng.random()
            nm = rng.choice(NAMES)
            if k < 0.25:
                b.d(rng.choice(["#ifdef ", "#ifdef  ", "# ifdef "]) + nm)
            elif k < 0.45:
                b.d("#ifndef " + nm)
            else:
                c_ = rand_cond(rng)
                b.d(rng.choice(["#if " + c_, "#if " + c_, "# if " + c_, "  #if " + c_, "#if(" + c_ + ")", "#if!(" + c_ + ")", "# if (" + c_ + ")"]))
            depth += 1
            state.append(False)
        elif r < 0.42 and depth > 0 and not state[-1]:
            c_ = rand_cond(rng)
            b.d(rng.choice(["#elif " + c_, "#elif " + c_, "#elif(" + c_ + ")", "# elif !(" + c_ + ")"]))
        elif r < 0.52 and depth > 0 and not state[-1]:
            b.d("#else")
            state[-1] = True
        elif r < 0.68 and depth > 0:
            b.d(rng.choice(["#endif", "#endif", "# endif"]))
            depth -= 1
            state.pop()
        elif r < 0.8:
            nm = rng.choice(NAMES)
            if rng.random() < 0.7:
                b.d("#undef " + nm)
            if rng.random() < 0.8:
                b.d(f"#define {nm} {rng.randint(0, 3)}")  # without the #undef this redefines the name: the new value counts (cpp warns only)
        else:
            pass
        b.mark()
    while depth > 0:
        b.d("#endif")
        depth -= 1
        b.mark()
    return b


def rand_cond(rng):
    r = rng.random()
    if r < 0.5:
        c = rng.choice(CONDS)
    else:
        atoms = ["defined(%s)", "defined %s", "!defined(%s)", "%s", "%s == 1", "%s > 1", "%s != 2", "!%s", "(%s + 1) > 2"]
        parts = [rng.choice(atoms) % rng.choice(NAMES) for _ in range(rng.randint(1, 4))]
        c = parts[0]
        for p in parts[1:]:
            op = rng.choice(["&&", "||", " && ", " || "])
            c = (f"({c}){op}({p})" if rng.random() < 0.4 else f"{c} {op} {p}")
        if rng.random() < 0.2:
            c = f"!({c})"
    # spread over all four names
    if rng.random() < 0.5:
        c = re.sub(r"\bA\b", rng.choice(NAMES), c)
        c = re.sub(r"\bB\b", rng.choice(NAMES), c)
    return c


def fortls_preprocess(lines, defs, path="/nonexistent/vf/t.F90"):
    from fortls.parsers.internal.parser import preprocess_file
    out, skips, defines, table = preprocess_file(list(lines), path, dict(defs), set())
    return out, skips, defines, table


def norm_table(tbl, init, fortls_side):
    """name -> comparable body"""
    out = {}
    for k, v in tbl.items():
        if isinstance(v, tuple):
            out[k] = ("fn", ",".join(a.strip() for a in (v[0] or "").split(",")), (v[1] or "").strip())
        else:
            s = v
            if fortls_side and s == "True":
                s = ""
            out[k] = (s or "").strip()
    return out


def compare_skeleton(res, b, defs, tag, protocol=True, cpp=True):
    lines = b.done() if b.lines[-1] != "end module ppm" else b.lines
    w = {"lines": lines, "pp_defs": defs, "family": tag}
    res.count("evaluations")
    res.seen("\n".join(lines), json.dumps(defs, sort_keys=True))
    try:
        act, table = P.run_model(lines, defs)
    except P.PPError as e:
        res.count("outside_quantifier:" + str(e).split(" ")[0])
        return
    want = {k for k, ln in b.marker_line.items() if ln in act}
    # cross-check the oracle with the real cpp
    if cpp and P.have_cpp():
        clines = [(f"MK{int(re.search(r'mk_(\d+)', l).group(1))}_" if "subroutine mk_" in l and "end" not in l else ("" if "mk_" in l or l in ("module ppm", "contains", "end module ppm") else l)) for l in lines]
        try:
            cact, ctable = P.run_cpp(clines, defs, NAMES)
            res.count("cpp_cross_checks")
            if cact != want or norm_table(ctable, defs, False) != norm_table(table, defs, False):
                res.inconclusive.append(f"oracle disagreement model vs cpp on {tag}: model {sorted(want)} cpp {sorted(cact)}; tables {table} vs {ctable}; lines {lines}")
                res.count("oracle_disagreements")
                return
        except (P.PPError, Exception) as e:  # noqa
            res.count("cpp_rejected")
            return
    # hooked observation
    try:
        out, skips, defines, ftable = fortls_preprocess(lines, defs)
    except Exception as e:  # noqa
        res.violation(f"preprocess-raised:{type(e).__name__}", f"{e!r}", w)
        return
    skipped = set()
    for s, e in skips:
        skipped.update(range(s - 1, (e if e > 0 else len(lines))))
    got = {k for k, ln in b.marker_line.items() if ln not in skipped}
    if got != want:
        first = min((got ^ want))
        key = classify_cond(lines, b.marker_line[first], got, want)
        res.violation(key, f"active markers differ: fortls {sorted(got)} reference {sorted(want)} (defs {defs})", w)
        return
    ft, mt = norm_table(ftable, defs, True), norm_table(table, defs, False)
    if ft != mt:
        bad = sorted(k for k in set(ft) | set(mt) if ft.get(k) != mt.get(k))
        res.violation("macro-table:" + ("missing" if any(k not in ft for k in bad) else ("extra" if any(k not in mt for k in bad) else "body")),
                      f"macro table at EOF differs for {bad}: fortls {ft} reference {mt}", w)
        return
    res.count("hooked_comparisons")
    if protocol:
        with H.Workspace({"t.F90": "\n".join(lines) + "\n"}) as ws:
            srv = H.Server(["--pp_defs", json.dumps(defs)])
            srv.initialize(ws.root)
            r = srv.request("textDocument/documentSymbol", {"textDocument": {"uri": ws.uri("t.F90")}})
            if r[0] != "resp":
                res.violation("protocol:documentSymbol-error", str(r[1:4]), w)
                return
            seen = {int(s["name"][3:]) for s in r[2] if s["name"].startswith("mk_")}
            res.count("protocol_comparisons")
            if seen != want:
                res.violation("protocol:indexed-markers-differ", f"outline shows markers {sorted(seen)}, active by reference {sorted(want)}", w)


def classify_cond(lines, ln, got, want):
    """mechanism key from the governing directive of the first differing marker"""
    depth = 0
    gov = None
    for k in range(ln, -1, -1):
        m = P.DIRECTIVE.match(lines[k])
        if not m:
            continue
        d = m.group(1)
        if d == "endif":
            depth += 1
        elif d in ("if", "ifdef", "ifndef"):
            if depth == 0:
                gov = (d, m.group(2)) if gov is None else gov
                break
            depth -= 1
        elif d in ("elif", "else") and depth == 0 and gov is None:
            gov = (d, m.group(2))
    if gov is None:
        return "region:unconditional-line"
    d, cond = gov
    feats = []
    if re.search(r"defined\s+\w", cond):
        feats.append("defined-without-parens")
    if "(" in cond:
        feats.append("parens")
    if re.search(r"[<>=!]=|[<>]", cond):
        feats.append("comparison")
    if "!" in cond.replace("!=", ""):
        feats.append("not")
    return f"region:{d}:" + ("+".join(feats) or "plain")


# ------------------------------------------------------------------------------------------------
# macro expansion

BODIES = ["1", "42", "x + 1", "(a1*b1)", "\"C:\\dir\\new\"", "'it''s'", "a\\b", "(/1,2/)", "y**2", "p.and.q", "[1, 2]", "{z}", "u^v", "s|t", "w?", "m$n", "k.1", "a*+b", "\\1", "\\g<1>", "r\"\\n\"", "", "1.0e-3_dp", "c(1:2)"]
FBODIES = ["x+y", "(x)*(y)", "x\\y", "[x,y]", "x**y", "'q' // x", "max(x,y)", "x ? y", "{x|y}", "x.y", "\\1 x \\2 y", "x$y", "(/x, y/)", "x", "y - x", "f_(y, x, y)"]
ARGS = ["a", "b1", "3", "p%q", "n+1", "(u)", "v(2)", "-w", "1.5", "r*s"]


def expansion_case(rng):
    """-> (lines, [(line index, expected text)], names)"""
    lines = []
    macros = {}
    order = []
    pool = ["OBJ", "VAL", "PATH_", "ZED", "FN", "GN", "H2", "KK"]
    rng.shuffle(pool)
    for nm in pool[:rng.randint(1, 5)]:
        if rng.random() < 0.5:
            body = rng.choice(BODIES)
            lines.append(f"#define {nm} {body}".rstrip() if body else f"#define {nm}")
            macros[nm] = body
        else:
            npar = rng.choice([0, 1, 2, 2, 3])
            params = ["x", "y", "zz"][:npar]
            body = rng.choice(FBODIES) if npar >= 2 else (rng.choice(["x*2", "(x)", "x\\x", "-x", "[x]"]) if npar == 1 else rng.choice(["42", "(1)", "a\\b"]))
            lines.append(f"#define {nm}({','.join(params)}) {body}")
            macros[nm] = (params, body)
        order.append(nm)
    lines += ["program use_macros"]
    checks = []

    def define(nm):
        if rng.random() < 0.5:
            body = rng.choice(BODIES)
            lines.append(f"#define {nm} {body}".rstrip() if body else f"#define {nm}")
            macros[nm] = body
        else:
            npar = rng.choice([0, 1, 2, 2, 3])
            params = ["x", "y", "zz"][:npar]
            body = rng.choice(FBODIES) if npar >= 2 else (rng.choice(["x*2", "(x)", "x\\x", "-x", "[x]"]) if npar == 1 else rng.choice(["42", "(1)", "a\\b"]))
            lines.append(f"#define {nm}({','.join(params)}) {body}")
            macros[nm] = (params, body)

    for _ in range(rng.randint(2, 8)):
        if rng.random() < 0.3:
            # a macro used above gets another definition (other body, possibly the other form), with or without #undef
            nm_ = rng.choice(order)
            if rng.random() < 0.7:
                lines.append(f"#undef {nm_}")
            define(nm_)
        used = rng.sample(order, min(len(order), rng.choice([1, 1, 2])))
        # function-like invocation must come last on the line (nothing with ')' after it), at most one function-like macro per line
        fl = [u for u in used if isinstance(macros[u], tuple)]
        ol = [u for u in used if not isinstance(macros[u], tuple)]
        fl = fl[:1]
        src = f"  v{len(lines)} = "
        exp = src
        for u in ol:
            if macros[u] == "":
                continue  # body-less macro as a value is outside the property (fortls stores 'True')
            src += u + " + "
            exp += macros[u] + " + "
        if fl:
            u = fl[0]
            params, body = macros[u]
            args = [rng.choice(ARGS) for _ in params]
            src += f"{u}({','.join(args)})"
            e = body
            if params:
                # simultaneous identifier-wise substitution
                e = re.sub(r"[A-Za-z_]\w*", lambda m: args[params.index(m.group())] if m.group() in params else m.group(), body)
            exp += e
        else:
            src += "0"
            exp += "0"
        checks.append((len(lines), exp, src))
        lines.append(src)
    # decoy: names inside longer identifiers must not be replaced
    for u in order[:2]:
        lines.append(f"  x{u}y = {u}_z + my{u}")
        checks.append((len(lines) - 1, lines[-1], lines[-1]))
    lines.append("end program use_macros")
    return lines, checks, macros


def compare_expansion(res, rng):
    lines, checks, macros = expansion_case(rng)
    w = {"lines": lines, "family": "expansion"}
    res.count("evaluations")
    res.seen("\n".join(lines))
    try:
        out, skips, defines, ftable = fortls_preprocess(lines, {})
    except Exception as e:  # noqa
        hostile = [n for n, b in macros.items() if "\\" in (b[1] if isinstance(b, tuple) else b)]
        res.violation(f"expansion:preprocess-raised:{type(e).__name__}:" + ("backslash-in-body" if hostile else ("empty-params" if any(isinstance(b, tuple) and not b[0] for b in macros.values()) else "other")), f"{e!r}", w)
        return
    for ln, exp, src in checks:
        res.count("expanded_lines_compared")
        if out[ln] != exp:
            # classify by the macro kinds on the line
            kinds = []
            for nm, b in macros.items():
                if re.search(rf"\b{nm}\b", src):
                    body = b[1] if isinstance(b, tuple) else b
                    kinds.append(("fn" if isinstance(b, tuple) else "obj") + (":backslash" if "\\" in body else "") + (":noparams" if isinstance(b, tuple) and not b[0] else ""))
            res.violation("expansion:" + ("+".join(sorted(set(kinds))) or "decoy-identifier-changed"), f"line {src!r} expanded to {out[ln]!r}, reference {exp!r}", dict(w, line=ln))
            return
    # macro table bodies verbatim
    for nm, b in macros.items():
        fb = ftable.get(nm)
        want = (",".join(b[0]), b[1]) if isinstance(b, tuple) else (b if b != "" else "True")
        got = (",".join(a.strip() for a in fb[0].split(",")) if fb[0] else "", fb[1]) if isinstance(fb, tuple) else fb
        if got != want:
            res.violation("expansion:table-body-differs", f"macro {nm}: stored {got!r}, defined {want!r}", w)
            return


N_SYS = 48  # number of cases that share the systematic enumeration


def systematic_tasks(tier):
    """the systematic family as a flat task list (shape, conds): complete for 1-condition shapes; 2-condition shapes complete in
    the thorough tier, every 7th combination in quick; 3-condition shapes sampled by the caller"""
    t = []
    for shape in ("if", "if-else"):
        t += [(shape, (c,)) for c in CONDS]
    n = 0
    for shape in ("if-elif", "if-elif-else"):
        for c1 in CONDS:
            for c2 in CONDS:
                n += 1
                if tier != "quick" or n % 7 == 0:
                    t.append((shape, (c1, c2)))
    return t


def run_case(ctx, i, rng):
    res = Result()
    shapes, defsets = systematic_cases()
    quick = ctx.tier == "quick"
    if i < N_SYS:
        tasks = systematic_tasks(ctx.tier)[i::N_SYS]
        for n, (shape, conds) in enumerate(tasks):
            for dn, defs in enumerate(defsets):
                if not all(cond_ok_for(c, defs, []) for c in conds):
                    continue
                b = build_shape(shape, conds)
                compare_skeleton(res, b, defs, "systematic:" + shape, protocol=((n + dn) % 4 == 0), cpp=((n + dn) % 3 == 0))
        res.kind("family:systematic")
        return res
    # 3-condition shapes, sampled
    for _ in range(6 if quick else 20):
        shape = rng.choice(["if-elif-elif-else", "nested-then", "nested-else"])
        conds = tuple(rng.choice(CONDS) for _ in range(3))
        defs = rng.choice(defsets)
        b = build_shape(shape, conds)
        compare_skeleton(res, b, defs, "systematic:" + shape, protocol=rng.random() < 0.3, cpp=True)
    # random skeletons
    for _ in range(12 if quick else 30):
        b = random_skeleton(rng)
        defs = {n: str(rng.randint(0, 3)) for n in NAMES if rng.random() < 0.4}
        compare_skeleton(res, b, defs, "random", protocol=rng.random() < 0.3, cpp=True)
    res.kind("family:random")
    for _ in range(20 if quick else 40):
        compare_expansion(res, rng)
    res.kind("family:expansion")
    if i % 80 == 5:
        b = random_skeleton(rng)
        res.sample({"family": "random", "lines": b.done()[:14], "pp_defs": {"A": "1"}}, limit=1)
    return res


def finalize(stats, kinds):
    return {"exhaustive_part": "shapes if / if-else x the whole condition catalogue x all 9 valued definition sets of {A,B}: complete in both tiers; shapes if-elif / if-elif-else x catalogue^2 x 9 sets: complete in the thorough tier (every 7th in quick); 3-condition shapes and random skeletons sampled",
            "oracle_cross_check": "cpp" if P.have_cpp() else "unavailable"}
