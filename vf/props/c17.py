"""C17 — indexing never executes or writes anything on behalf of file contents.

Monitors: sys.addaudithook (inherited by the pool workers; events logged through an O_APPEND fd) armed only while the
server handles a message; before/after snapshot of the workspace and of a sentinel directory holding the canary
targets; for subprocess sessions `strace -f` on exec/open-for-write/unlink/rename/mkdir/connect syscalls.
"""
import hashlib
import json
import os
import re
import shutil
import subprocess
import time

from vf.core import Result, HERE
from vf import harness as H
from vf import gen_texts as G
from vf import inproc_monitors as IM
from vf.corpus import sample_sources
from vf.props.c09 import METHODS, params_for, IDENT

PROP = "C17"
LEVEL = "exploration"
META = {
    "engine": "audit-monitor",
    "technique": "runtime monitor: interpreter audit hook (exec/compile of strings, process spawning, writing opens, file-system mutations, sockets) in server and pool workers + file-system snapshots + strace on subprocess sessions, under adversarial sources/configs",
    "text": "Adversarial workspaces (host-language expressions, calls, imports and attribute chains in #if/#elif conditions, object- and function-like macro bodies, configuration pp_defs, include paths and file names with shell metacharacters) are indexed and queried through every route while an audit hook armed only around message handling records every exec/compile of a non-file source, process creation, writing open and file-system mutation in the server and its workers; workspace and sentinel snapshots must be unchanged and no canary may appear. Subprocess sessions are additionally watched with strace. Sampled inputs; the monitor sees every audited event of the executions produced. Also: 24 condition forms around payload-bearing macros, every configuration option given path-like values, parser failures injected on edits, a fresh logging configuration per in-process server.",
    "note": "trusted: CPython audit events (C extensions doing raw I/O are invisible to them; strace covers those in subprocess sessions); allow-list: <root>/fortls_debug.log, /dev/null, __pycache__",
}
RULE = ("adversarial documents from ~40 payload templates (python expressions with os.system/open/eval/exec/__import__/attribute chains/lambdas/walrus/"
        "f-strings/comprehensions in #if, #elif, #define bodies, function-like macros, config pp_defs, #include/INCLUDE paths, file names) x suffix x "
        "route {pool start-up, didOpen, didChange, requests at every identifier}, plus C03-style texts and repository samples as benign traffic; "
        "evaluations = messages handled under the armed audit hook; distinct = (payload template, placement, route) and document fingerprints")
ASSUME = ["autoupdate is disabled (network access on start-up is a documented, unrelated feature)", "the debug log is the only file the server may create"]


def plan(tier):
    if tier == "quick":
        return {"ncases": 1600, "nshards": 16, "budget_s": 70, "floor": 20000, "stall_s": 60}
    return {"ncases": 20000, "nshards": 16, "budget_s": 1500, "floor": 200000, "stall_s": 240}


PY_PAYLOADS = [
    "__import__('os').system('touch {C}')",
    "__import__('subprocess').call(['touch','{C}'])",
    "open('{C}','w').write('x')",
    "eval(\"__import__('os').system('touch {C}')\")",
    "exec(\"import os; os.system('touch {C}')\")",
    "().__class__.__bases__[0].__subclasses__()",
    "(lambda: __import__('os').mkdir('{C}'))()",
    "(x := __import__('pathlib').Path('{C}').touch())",
    "f\"{{__import__('os').system('touch {C}')}}\"",
    "[__import__('os').system('touch {C}') for _ in range(1)]",
    "__import__('shutil').rmtree('{W}')",
    "__import__('os').remove('{V}')",
    "__import__('socket').create_connection(('127.0.0.1', 9))",
    "__builtins__.__dict__['__import__']('os').system('touch {C}')",
    "1 if open('{C}','a') else 0",
    "True and __import__('os').rename('{V}', '{C}')",
    "getattr(__import__('os'), 'system')('touch {C}')",
    "compile('1','x','eval')",
    "1 or __import__('os').system('touch {C}')",
    "not __import__('os').system('touch {C}')",
    "0 != __import__('os').system('touch {C}')",
]
SHELL_NAMES = ["$(touch {C})", "`touch {C}`", "a;touch {C};", "|touch {C}", "&& touch {C}", "x'; touch {C}; '", "-o{C}", "../{Cb}", "{C}"]


# condition forms in which a payload-bearing macro name is used: anything a "lenient" evaluator might hand to the host language
COND_FORMS = ["{N}", "{N} >= 4.8", "{N} == 1.0", "1.5 < {N}", "{N} > 1e3", "{N} >= .5", "({N}) >= 1.", "{N} + 0.5", "{N} >= 4.8 && defined({N})", "defined {N} && {N} > 2.0",
              "{N} == \"s\"", "{N} == 'c'", "{N} ? 1 : 0", "{N} == 0x10", "{N} >= 4.8 || 0", "!{N} != 2.5", "{N} * 2.0 > 1", "{N} / 3.0", "{N} >= 10L", "-{N} < 0.0", "{N} % 2 == 1.0",
              "{N} >= 4.8 && {N} < 5.2", "{N}(1) > 0.5", "{N} .gt. 1.0"]


def cond(rng, name):
    return rng.choice(COND_FORMS).format(N=name)


_OPTS = []


def option_names():
    if not _OPTS:
        from fortls.interface import cli
        _OPTS.extend(sorted(a.dest for a in cli("fortls")._actions if a.dest not in ("help", "version")))
    return _OPTS


def adversarial(rng, canary, victim, wsroot):
    """-> (files, config or None, template tag)"""
    C, V, W = canary, victim, wsroot
    pay = rng.choice(PY_PAYLOADS).format(C=C, V=V, W=W)
    kind = rng.choice(["define-if", "if", "elif", "funcmacro-if", "funcmacro-use", "config-ppdefs", "define-use", "include-path", "fortran-include",
                       "filename", "config-odd", "config-option-path", "ifdef-chain", "define-nested", "doc-format"])
    body = "program adv\n  integer :: i\n  i = 1\nend program adv\n"
    files, cfg = {}, None
    ext = rng.choice([".F90", ".F", ".fpp", ".F08"])
    if kind == "define-if":
        files["adv" + ext] = f"#define X {pay}\n#if {cond(rng, 'X')}\n{body}#endif\n#if defined(X) && {cond(rng, 'X')}\n#endif\n#if 0\n#elif {cond(rng, 'X')}\n#endif\n"
    elif kind == "if":
        files["adv" + ext] = f"#if {pay}\n{body}#else\nmodule other\nend module other\n#endif\n"
    elif kind == "elif":
        files["adv" + ext] = f"#if 0\n#elif {pay}\n{body}#elif defined(Y) || {pay}\n#endif\n"
    elif kind == "funcmacro-if":
        files["adv" + ext] = f"#define F(x) __import__('os').system(x)\n#define G(a,b) {pay}\n#if F('touch {C}')\n#endif\n#if G(1,2)\n{body}#endif\n#if G(1,2) >= 4.8\n#endif\n"
    elif kind == "funcmacro-use":
        files["adv" + ext] = f"#define F(x) {pay}\nprogram adv\n  i = F(1)\n  call F(2)\nend program adv\n"
    elif kind == "config-ppdefs":
        cfg = {"pp_defs": {"X": pay, "Y": "X"}, "pp_suffixes": [ext]}
        files["adv" + ext] = f"#if {cond(rng, 'X')}\n{body}#endif\n#ifdef Y\n#if {cond(rng, 'Y')}\n#endif\n#endif\n"
    elif kind == "define-use":
        files["adv" + ext] = f"#define X {pay}\nprogram adv\n  i = X\n  print *, X\nend program adv\n"
    elif kind == "include-path":
        nm = rng.choice(SHELL_NAMES + ["/etc/passwd", "../../../../etc/hostname", "/proc/self/environ"]).format(C=C, Cb=os.path.basename(C))
        files["adv" + ext] = f"#include \"{nm}\"\n#include <{nm}>\n{body}"
    elif kind == "fortran-include":
        nm = rng.choice(SHELL_NAMES + ["/etc/passwd", "../../x"]).format(C=C, Cb=os.path.basename(C))
        files["adv.f90"] = f"program adv\n  include '{nm}'\n  include \"{nm}\"\nend program adv\n"
    elif kind == "filename":
        nm = rng.choice(SHELL_NAMES[:6]).format(C=C, Cb=os.path.basename(C)).replace("/", "_")
        files[nm + ".f90"] = body
        files["d " + nm + "/m.f90"] = "module m\nend module m\n"
    elif kind == "config-odd":
        cfg = rng.choice([
            {"source_dirs": ["$(touch %s)" % C, "`touch %s`" % C, "**"], "include_dirs": ["; touch %s" % C], "excl_paths": ["$(touch %s)" % C]},
            {"pp_defs": {"__import__('os').system('touch %s')" % C: "1"}, "pp_suffixes": [ext]},
            {"hover_language": "{0.__class__.__init__.__globals__}", "debug_log": False},
            {"excl_suffixes": ["$(touch %s)" % C], "incl_suffixes": [".$(touch %s)" % C]},
        ])
        files["adv" + ext] = f"#if defined(X)\n#endif\n{body}"
    elif kind == "config-option-path":
        # one option of the configuration file (any of the server's options) is given a path-like string, list or dict naming files
        # outside the workspace or a source file: whatever the option means, no file may be created, truncated or removed for it
        opt = rng.choice(option_names())
        path = rng.choice([C, "../" + os.path.basename(C), V, os.path.join(W, "adv" + ext), "adv" + ext, "sub/../../" + os.path.basename(C), "/dev/null/x"])
        val = rng.choice([path, [path], {"path": path}, {path: path}, path + "\n" + C])
        cfg = {opt: val}
        if rng.random() < 0.5:
            cfg["debug_log"] = rng.choice([True, path])
        files["adv" + ext] = f"#if defined(X)\n#endif\n{body}"
    elif kind == "ifdef-chain":
        files["adv" + ext] = f"#define A {pay}\n#define B A\n#define D B\n#if {cond(rng, 'D')}\n#elif {cond(rng, 'B')}\n#endif\n#ifdef A\n#if !A\n#elif {cond(rng, 'A')}\n#endif\n#endif\n{body}"
    elif kind == "define-nested":
        files["adv.h"] = f"#define H {pay}\n#if {cond(rng, 'H')}\n#endif\n"
        files["adv" + ext] = f"#include \"adv.h\"\n#if {cond(rng, 'H')}\n{body}#endif\n"
    else:  # doc-format
        files["adv.f90"] = ("module advdoc\ncontains\n  !> {0.__class__.__init__.__globals__} {self.__dict__} " + pay.replace("\n", " ") +
                            "\n  !! @param[in] a {a.__class__}\n  subroutine sdoc(a)\n    integer :: a !< {__import__('os').system('touch " + C + "')}\n  end subroutine sdoc\nend module advdoc\nprogram useit\n  use advdoc\n  call sdoc(1)\nend program useit\n")
    return files, cfg, kind


WRITE_FLAGS = os.O_WRONLY | os.O_RDWR | os.O_CREAT | os.O_TRUNC | os.O_APPEND


def judge_audit(res, log_path, root, witness):
    """classify audit records -> violations"""
    try:
        with open(log_path, encoding="utf-8", errors="replace") as fh:
            recs = [l.rstrip("\n").split("\t") for l in fh]
    except OSError:
        recs = []
    allow_write = (os.path.join(root, "fortls_debug.log"), "/dev/null")
    for r in recs:
        if len(r) < 2:
            continue
        ev = r[1]
        res.kind("audit:" + ev)
        res.count("audit_events")
        caller = r[-1] if len(r) > 2 else "-"
        if ev == "exec":
            fn = r[2]
            if not os.path.isfile(fn):
                res.violation(f"audit:exec-of-non-file-code@{caller}", f"code object compiled from {fn!r} was executed (caller {caller})", dict(witness, audit=r))
        elif ev == "compile":
            fn = r[2]
            if not os.path.isfile(fn):
                res.violation(f"audit:compile-of-non-file-source@{caller}", f"compile() of source named {fn!r}: {r[3] if len(r) > 3 else ''} (caller {caller})", dict(witness, audit=r))
        elif ev == "open":
            path, mode, flags = r[2], r[3], r[4]
            try:
                fl = int(flags)
            except ValueError:
                fl = 0
            writing = any(c in (mode or "") for c in "wax+") if mode not in ("None", "") else bool(fl & WRITE_FLAGS)
            if writing and path not in allow_write and "__pycache__" not in path:
                res.violation(f"audit:open-for-writing@{caller}", f"open({path!r}, mode={mode}, flags={flags}) (caller {caller})", dict(witness, audit=r))
        elif ev in ("os.fork", "os.forkpty"):
            continue  # the worker pool
        elif ev.startswith(("os.system", "os.exec", "os.posix_spawn", "os.spawn", "subprocess.Popen", "pty.spawn")):
            res.violation(f"audit:process-creation:{ev}@{caller}", "\t".join(r[2:])[:300], dict(witness, audit=r))
        elif ev.startswith(("socket.", "urllib.")):
            res.violation(f"audit:network:{ev}@{caller}", "\t".join(r[2:])[:300], dict(witness, audit=r))
        elif ev.startswith(("os.remove", "os.unlink", "os.rename", "os.replace", "os.mkdir", "os.rmdir", "os.truncate", "os.chmod", "os.chown", "os.link",
                            "os.symlink", "shutil.", "tempfile.", "os.utime", "os.mkfifo", "os.mknod", "os.kill", "os.putenv", "os.unsetenv", "ctypes.dlopen")):
            res.violation(f"audit:fs-mutation:{ev}@{caller}", "\t".join(r[2:])[:300], dict(witness, audit=r))


def snapshot(*dirs):
    out = {}
    for d in dirs:
        for dp, dn, fn in os.walk(d):
            for n in dn:
                out[os.path.join(dp, n) + "/"] = "dir"
            for f in fn:
                p = os.path.join(dp, f)
                try:
                    st = os.stat(p)
                    with open(p, "rb") as fh:
                        out[p] = (st.st_size, st.st_mtime_ns, hashlib.sha256(fh.read()).hexdigest())
                except OSError:
                    out[p] = "unreadable"
    return out


_audit_ready = [None]


def ensure_audit(ctx):
    """one audit hook per worker process; log file is truncated per case"""
    if _audit_ready[0] is None:
        path = os.path.join(H.scratch_root(), "audit.log")
        IM.install_audit(path)
        IM.arm(False)
        _audit_ready[0] = path
        # warm-up: import everything, load intrinsics, run one full session so that lazy imports do not show up later
        with H.Workspace({"w.F90": "#if defined(A) || 1\nmodule w\ninteger :: v\nend module w\n#endif\n", ".fortlsrc": "{\"nthreads\": 2}"}) as ws:
            srv = H.Server(nthreads=2)
            srv.initialize(ws.root)
            u = ws.uri("w.F90")
            srv.did_open(u)
            for m in METHODS:
                srv.request(m, params_for(m, u, 2, 11))
            srv.did_change(u, [{"text": "module w\nend module w\n"}])
            srv.did_save(u)
            srv.request("workspace/symbol", {"query": ""})
    return _audit_ready[0]


class Armed:
    """arms the audit window around server calls only (the harness's own writes are outside)"""

    def __init__(self, srv):
        self.srv = srv
        orig = srv.send

        def send(msg):
            IM.arm(True)
            try:
                return orig(msg)
            finally:
                IM.arm(False)
        srv.send = send


def run_inproc(ctx, i, rng, res):
    log = ensure_audit(ctx)
    open(log, "w").close()
    sentinel = H.scratch_root()
    try:
        canary = os.path.join(sentinel, "PWNED")
        victim = os.path.join(sentinel, "victim.txt")
        with open(victim, "w") as fh:
            fh.write("do not touch\n")
        with H.Workspace({}) as ws:
            r = rng.random()
            if r < 0.75:
                files, cfg, tag = adversarial(rng, canary, victim, ws.root)
            elif r < 0.9:
                tag, cfg = "c03-corpus", None
                files = {f"c{k}" + G.ext_for(rng): (G.token_soup(rng) if rng.random() < 0.5 else G.mutate(rng, rng.choice(sample_sources())[1])) for k in range(4)}
            else:
                tag, cfg = "samples", None
                smp = sample_sources()
                files = dict(rng.sample(smp, 8))
            if cfg is not None:
                files[".fortlsrc"] = json.dumps(cfg)
            late = {}
            # half of the adversarial files arrive after start-up (didOpen route)
            for f in list(files):
                if f != ".fortlsrc" and rng.random() < 0.4:
                    late[f] = files.pop(f)
            for f, t in files.items():
                ws.write(f, t)
            witness = {"template": tag, "files": {**files, **late}, "late": list(late), "canary": canary}
            ctx.mark(witness)
            res.kind("template:" + tag)
            before = snapshot(ws.root, sentinel)
            H.reset_logging()
            srv = H.Server(["--incremental_sync"] + (["--debug_log"] if rng.random() < 0.15 else []), nthreads=rng.choice([1, 2, 4]))
            Armed(srv)
            srv.initialize(ws.root)
            res.count("evaluations")
            res.seen(tag, "initialize", json.dumps(sorted(files.items()), default=str))
            for f, t in late.items():
                ws.write(f, t)
            before.update({k: v for k, v in snapshot(ws.root).items() if k not in before})
            for f in list(files) + list(late):
                if f == ".fortlsrc" or f.endswith(".h"):
                    continue
                uri = ws.uri(f)
                srv.did_open(uri)
                res.count("evaluations")
                text = (files.get(f) or late.get(f))
                if not isinstance(text, str):
                    continue
                lines = text.split("\n")
                # typing route: re-send the document line by line as changes
                if rng.random() < 0.5 and len(lines) < 40:
                    srv.did_change(uri, [{"text": ""}])
                    for ln, l in enumerate(lines):
                        srv.did_change(uri, [{"range": {"start": {"line": ln, "character": 0}, "end": {"line": ln, "character": 0}}, "text": l + "\n"}])
                        res.count("evaluations")
                    res.seen(tag, "typing", f)
                npos = 0
                for ln, l in enumerate(lines[:60]):
                    for m in list(IDENT.finditer(l))[:6]:
                        for method in METHODS:
                            srv.request(method, params_for(method, uri, ln, m.start()))
                            res.count("evaluations")
                        npos += 1
                        if npos > 25:
                            break
                    if npos > 25:
                        break
                if rng.random() < 0.3:
                    # fault injection: the next two indexing passes of this document fail inside the parser (whatever the cause, a failure
                    # must not make the server write or run anything): on two successive edits
                    from fortls.parsers.internal.parser import FortranFile
                    orig_parse = FortranFile.parse
                    left = [2]

                    def failing_parse(self_, *a, **k):
                        if left[0] > 0 and self_.path == ws.path(f):
                            left[0] -= 1
                            raise rng.choice([ValueError("injected"), TypeError("injected"), KeyError("x"), RecursionError("injected")])
                        return orig_parse(self_, *a, **k)
                    FortranFile.parse = failing_parse
                    try:
                        srv.did_change(uri, [{"text": text + "\n! edited\n"}])
                        srv.did_change(uri, [{"text": text + "\n! edited again\n"}])
                        res.count("evaluations", 2)
                        res.kind("fault:parse-failure")
                    finally:
                        FortranFile.parse = orig_parse
                srv.did_save(uri)
                srv.request("textDocument/documentSymbol", {"textDocument": {"uri": uri}})
                res.count("evaluations", 2)
                res.seen(tag, "queries", f, text)
            srv.request("workspace/symbol", {"query": "a"})
            after = snapshot(ws.root, sentinel)
            judge_audit(res, log, ws.root, witness)
            if os.path.lexists(canary):
                res.violation("canary-created", f"canary {canary} exists after indexing template {tag}", witness)
            allowed_new = {os.path.join(ws.root, "fortls_debug.log")}
            for p in set(before) | set(after):
                if p in allowed_new:
                    continue
                if before.get(p) != after.get(p):
                    what = "created" if p not in before else ("deleted" if p not in after else "modified")
                    res.violation(f"snapshot:file-{what}", f"{p} was {what} while the server ran (template {tag})", witness)
            if i % 40 == 7:
                res.sample({"template": tag, "files": {k: (v[:300] if isinstance(v, str) else repr(v)[:100]) for k, v in list(witness["files"].items())[:2]}}, limit=1)
    finally:
        shutil.rmtree(sentinel, ignore_errors=True)


STRACE_RE = re.compile(r'^(?:\[pid\s+\d+\]\s+|\d+\s+)?(\w+)\((.*)$')


def run_strace(ctx, i, rng, res):
    """subprocess session under strace: syscall-level view (covers C-level I/O the audit hook cannot see)"""
    from vf.dsub import SubServer, frame
    if shutil.which("strace") is None:
        res.inconclusive.append("strace not available")
        return
    sentinel = H.scratch_root()
    try:
        canary = os.path.join(sentinel, "PWNED")
        victim = os.path.join(sentinel, "victim.txt")
        open(victim, "w").write("x\n")
        with H.Workspace({}) as ws:
            files, cfg, tag = adversarial(rng, canary, victim, ws.root)
            if cfg is not None:
                files[".fortlsrc"] = json.dumps(cfg)
            for f, t in files.items():
                ws.write(f, t)
            witness = {"template": tag, "files": files, "route": "strace"}
            ctx.mark(witness)
            log = os.path.join(sentinel, "strace.log")
            # wrap the server command in strace
            import vf.dsub as D
            srv = D.SubServer.__new__(D.SubServer)
            env = dict(os.environ)
            env["PYTHONPATH"] = D.REPO + os.pathsep + HERE
            env["PYTHONHASHSEED"] = "0"
            env["PYTHONDONTWRITEBYTECODE"] = "1"
            env.pop("FORTLS_VERIF", None)
            argv = ["strace", "-f", "-qq", "-o", log, "-e", "trace=execve,execveat,openat,open,creat,unlink,unlinkat,rename,renameat,renameat2,mkdir,mkdirat,rmdir,connect,socket,truncate,ftruncate,chmod,fchmodat,link,linkat,symlink,symlinkat",
                    D.sys.executable, "-B", os.path.join(HERE, "vf", "run_server.py"), "--disable_autoupdate", "--nthreads", "2"]
            srv.stderr_path = None
            srv.errf = subprocess.DEVNULL
            srv.p = subprocess.Popen(argv, stdin=subprocess.PIPE, stdout=subprocess.PIPE, stderr=subprocess.DEVNULL, env=env, bufsize=0, start_new_session=True)
            srv.buf = srv.raw = b""
            srv.msgs, srv.errors = [], []
            try:
                r = srv.request(1, "initialize", {"rootPath": ws.root}, timeout=40)
                if r is None:
                    res.inconclusive.append("strace session: no initialize response")
                    return
                # mark the end of interpreter start-up in the log: everything before the first openat of the workspace root is start-up
                n = 2
                for f in files:
                    if f == ".fortlsrc":
                        continue
                    uri = ws.uri(f)
                    srv.notify("textDocument/didOpen", {"textDocument": {"uri": uri}})
                    for method in METHODS[:4]:
                        n += 1
                        srv.request(n, method, params_for(method, uri, 1, 4), timeout=20)
                        res.count("evaluations")
                srv.finish(10)
            finally:
                srv.kill()
            res.count("strace_sessions")
            seen_root = False
            try:
                lines = open(log, errors="replace").read().splitlines()
            except OSError:
                lines = []
            nexec = 0
            for l in lines:
                m = re.match(r"^\d+\s+(\w+)\((.*)", l)
                if not m:
                    continue
                sc, rest = m.group(1), m.group(2)
                res.count("strace_syscalls")
                if ws.root in rest:
                    seen_root = True
                if sc in ("execve", "execveat"):
                    nexec += 1
                    if nexec > 1 and "= -1 ENOENT" not in rest:
                        res.violation("strace:execve", f"process executed: {rest[:200]}", dict(witness, syscall=l[:300]))
                    continue
                if not seen_root:
                    continue  # interpreter start-up (pyc caches etc. are disabled, but stay safe)
                pm = re.search(r'"([^"]*)"', rest)
                path = pm.group(1) if pm else ""
                allpaths = re.findall(r'"([^"]*)"', rest)
                if allpaths and all(q.startswith("/dev/shm/sem.") for q in allpaths):
                    continue  # POSIX semaphores of the multiprocessing pool
                if sc in ("openat", "open", "creat"):
                    if re.search(r"O_WRONLY|O_RDWR|O_CREAT|O_TRUNC|O_APPEND", rest) or sc == "creat":
                        if path in ("/dev/null",) or path.startswith("/dev/shm/") or "__pycache__" in path or path == os.path.join(ws.root, "fortls_debug.log") or path.startswith("/dev/pts") or path == "/dev/tty":
                            continue
                        if "= -1 E" in rest and "O_CREAT" not in rest:
                            continue
                        res.violation("strace:open-for-writing", f"{sc}({rest[:160]}", dict(witness, syscall=l[:300]))
                elif sc in ("connect",):
                    if "AF_UNIX" in rest:
                        continue
                    res.violation("strace:connect", rest[:200], dict(witness, syscall=l[:300]))
                elif sc == "socket":
                    continue
                elif sc in ("unlink", "unlinkat") and path.startswith("/dev/shm/"):
                    continue
                else:
                    if "= -1 E" in rest:
                        continue
                    res.violation(f"strace:fs-mutation:{sc}", rest[:200], dict(witness, syscall=l[:300]))
            if os.path.lexists(canary):
                res.violation("canary-created", f"canary {canary} exists (strace session, template {tag})", witness)
            res.seen("strace", tag, json.dumps(sorted(files.items())))
    finally:
        shutil.rmtree(sentinel, ignore_errors=True)


def run_case(ctx, i, rng):
    res = Result()
    nstrace = 16 if ctx.tier == "quick" else 300
    if i < nstrace:
        run_strace(ctx, i, rng, res)
    else:
        run_inproc(ctx, i, rng, res)
    return res


def on_stuck(i, why, tail, mark):
    return {"key": "hang:" + str((mark or {}).get("template")), "what": f"case {i} did not terminate ({why}); {tail[-400:]}", "witness": mark, "case": i}
