"""C04 — outline and workspace symbols mirror the program's block structure.

Oracle: the structure recorded by the program model while rendering (lines known by construction), rendered with random
spacing, keyword case and END spellings.  Monitor: textDocument/documentSymbol per file and workspace/symbol for many queries.
"""
import os

from vf.core import Result
from vf import harness as H
from vf import model as M

PROP = "C04"
LEVEL = "exploration"
META = {
    "engine": "model-monitor",
    "technique": "runtime monitor: documentSymbol and workspace/symbol answers compared with the block structure recorded by the program generator (gfortran-validated programs, random spacing / case / END spellings, nested constructs with decoys)",
    "text": "Programs built from nested units, procedures with CONTAINS nesting, derived types with components and bindings, generic interfaces and bodies of DO / DO WHILE / named DO / labelled DO ... CONTINUE (also two nested loops sharing the terminal label, in half of the workspaces) / IF-ELSE IF / SELECT CASE / BLOCK / ASSOCIATE constructs with keyword decoys in strings and comments are rendered with random indentation, keyword case and END spellings; every required outline entry must appear exactly once with admissible kind, container and the opening/END lines; workspace/symbol must satisfy required <= result <= allowed, contain the query case-insensitively and be sorted. Sampled program shapes; all substrings (len 1-4) of sampled names as queries. The model writes glued/double-blank END TYPE and END INTERFACE, WHERE/FORALL, SELECT TYPE and arrays named like keywords.",
    "note": "trusted: the generator's line bookkeeping; kind families tolerate benign re-mapping (procedure {12,6}, type {5,23}, interface {11}, component {13,8,7}, binding {6,12}); extra outline entries are allowed unless they duplicate a required one",
}
RULE = ("generated workspaces x style variants; per file the documentSymbol list vs required nodes (unit, procedures/types/interfaces directly in a unit, "
        "components and bindings of types); workspace/symbol queries = substrings of names in random case, empty string, non-matching strings; "
        "evaluations = outline entries and query results compared; distinct = (workspace, file, node) and (workspace, query)")
ASSUME = ["identifiers are never keywords", "programs accepted by gfortran (-std=f2018; -std=gnu for the workspaces with labelled DO loops)"]

FAMILY = {"module": {2}, "program": {2}, "procedure": {12, 6}, "type": {5, 23}, "interface": {11}, "component": {13, 8, 7}, "binding": {6, 12}}


def plan(tier):
    if tier == "quick":
        return {"ncases": 4000, "nshards": 16, "budget_s": 75, "floor": 20000, "stall_s": 60}
    return {"ncases": 60000, "nshards": 16, "budget_s": 1800, "floor": 800000, "stall_s": 240}


def units_of(w):
    return {n.name for n in w.outline if n.kind in ("module", "program") or (n.kind == "procedure" and n.container is None)}


def run_case(ctx, i, rng):
    res = Result()
    style = M.Style(rng)
    labeldo = rng.random() < 0.5  # labelled DO ... CONTINUE loops, also nested with a shared terminal label (F2018-deleted, hence -std=gnu)
    w = M.gen_workspace(rng, style=style, tight=rng.random() < 0.3, split_files=rng.random() < 0.8, labeldo=labeldo)
    if labeldo:
        res.count("labelled_do_workspaces")
    if M.have_gfortran():
        ok, err = M.gfortran_check(w.files, w.order, std="gnu" if labeldo else "f2018")
        if not ok:
            res.count("generator_rejects")
            return res
    ws, srv, ev = H.start(w.files, nthreads=2)
    try:
        units = units_of(w)
        wit = {"files": w.files, "style": {"kwcase": style.kwcase, "end": style.end_style, "indent": style.indent}}
        for f in w.files:
            r = srv.request("textDocument/documentSymbol", {"textDocument": {"uri": ws.uri(f)}})
            if r[0] != "resp" or not isinstance(r[2], list):
                res.violation("outline:request-failed", str(r[1:4])[:200], dict(wit, file=f))
                continue
            syms = r[2]
            for n in w.outline:
                if n.file != f:
                    continue
                required = n.container is None or n.container in units or n.kind in ("component", "binding")
                if not required:
                    continue
                res.count("evaluations")
                res.seen(i, f, n.kind, n.name, n.sline)
                res.kind("node:" + n.kind)
                match = [s for s in syms if s["name"].lower() == n.name.lower() and (s.get("containerName") or "").lower() == (n.container or "").lower()]
                if n.kind in ("component", "binding"):
                    match = [s for s in match if s["location"]["range"]["start"]["line"] == n.sline] or match
                tag = f"{n.kind}"
                if len(match) != 1:
                    others = [s for s in syms if s["name"].lower() == n.name.lower()]
                    what = "missing" if not match else "duplicate"
                    if not match and others:
                        what = "wrong-container"
                    res.violation(f"outline:{what}:{tag}", f"{n.kind} '{n.name}' (container {n.container}) in {f}: {len(match)} entries; same-name entries {[(s.get('containerName'), s['kind']) for s in others]}",
                                  dict(wit, file=f, node=list(n)))
                    continue
                s = match[0]
                if s["kind"] not in FAMILY[n.kind]:
                    res.violation(f"outline:kind:{tag}", f"{n.kind} '{n.name}' has symbol kind {s['kind']}, admissible {sorted(FAMILY[n.kind])}", dict(wit, file=f, node=list(n)))
                rg = s["location"]["range"]
                if rg["start"]["line"] != n.sline:
                    res.violation(f"outline:start-line:{tag}", f"{n.kind} '{n.name}' starts at line {rg['start']['line']}, opening statement is on line {n.sline}", dict(wit, file=f, node=list(n)))
                elif rg["end"]["line"] != n.eline:
                    endtxt = w.lines[f][n.eline].strip().lower()
                    res.violation(f"outline:end-line:{tag}:" + ("bare-end" if endtxt == "end" else "named-end"),
                                  f"{n.kind} '{n.name}' ends at line {rg['end']['line']}, its END statement is on line {n.eline} ({w.lines[f][n.eline].strip()!r})", dict(wit, file=f, node=list(n)))
        # workspace symbols
        required, allowed = {}, {}
        for m in w.mods:
            required[(m.name, None)] = m.file
            for e in m.ents:
                required[(e.name, m.name)] = m.file
            for p in m.procs:
                required[(p.name, m.name)] = m.file
        required[(w.prog.name, None)] = "main.f90"
        if w.ext is not None:
            required[(w.ext.name, None)] = "ext.f90"
        for e in w.prog.ents:
            allowed[(e.name, w.prog.name)] = 1
        for p in w.prog.procs:
            allowed[(p.name, w.prog.name)] = 1
        if w.ext is not None:
            for e in w.ext.ents:
                allowed[(e.name, w.ext.name)] = 1
        names = sorted({k[0] for k in required})
        queries = {""}
        for _ in range(12):
            nm = rng.choice(names)
            a = rng.randrange(len(nm))
            q = nm[a:a + rng.randint(1, 4)]
            queries.add("".join(c.upper() if rng.random() < 0.4 else c for c in q))
        queries.add("zzqq")
        for q in sorted(queries):
            r = srv.request("workspace/symbol", {"query": q})
            res.count("evaluations")
            res.seen(i, "q", q)
            res.kind("query")
            if r[0] != "resp" or not isinstance(r[2], list):
                res.violation("wsymbol:request-failed", str(r[1:4])[:200], dict(wit, query=q))
                continue
            got = [(s["name"], s.get("containerName")) for s in r[2]]
            gl = [(a.lower(), (b or "").lower() or None) for a, b in got]
            ql = q.lower()
            req = {k for k in required if ql in k[0].lower()}
            miss = [k for k in req if (k[0].lower(), (k[1] or "").lower() or None) not in gl]
            if miss:
                res.violation("wsymbol:missing", f"query {q!r}: missing {sorted(miss)[:5]}", dict(wit, query=q))
            bad = [g for g in gl if ql not in g[0]]
            if bad:
                res.violation("wsymbol:not-containing-query", f"query {q!r}: returned {bad[:5]}", dict(wit, query=q))
            allow_l = {(k[0].lower(), (k[1] or "").lower() or None) for k in list(required) + list(allowed)}
            intr = [g for g in gl if g not in allow_l and not is_intrinsic_module(g)]
            if intr:
                res.violation("wsymbol:not-an-indexed-entity", f"query {q!r}: returned {intr[:5]} which is neither a unit nor a member of a unit", dict(wit, query=q))
            if len(set(gl)) != len(gl):
                res.violation("wsymbol:duplicates", f"query {q!r}: {[g for g in gl if gl.count(g) > 1][:4]}", dict(wit, query=q))
            nm = [s["name"] for s in r[2]]
            if nm != sorted(nm) and nm != sorted(nm, key=str.casefold):
                res.violation("wsymbol:not-sorted", f"query {q!r}: {nm[:10]}", dict(wit, query=q))
        if i % 150 == 2:
            f0 = w.order[0]
            res.sample({"file": f0, "style": wit["style"], "text": w.files[f0][:500], "nodes": [list(n) for n in w.outline if n.file == f0][:6]}, limit=1)
    finally:
        ws.close()
    return res


INTRINSIC_MODS = {"omp_lib", "omp_lib_kinds", "openacc", "openacc_kinds", "iso_fortran_env", "iso_c_binding", "ieee_exceptions", "ieee_arithmetic", "ieee_features"}


def is_intrinsic_module(g):
    return g[0] in INTRINSIC_MODS or (g[1] in INTRINSIC_MODS)
