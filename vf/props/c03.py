"""C03 — indexing is total and terminates on every document text.

Refuting events (observed at the client boundary + hooked exception sites + RAISE monitor + CPU clock):
parse/update failing (showMessage "...failed..."), documentSymbol / diagnostics failing on the produced index,
RecursionError raised in fortls frames (even when swallowed), CPU time over budget, non-termination (watchdog).
"""
import json
import os
import re
import time

from vf.core import Result
from vf import harness as H
from vf import monitors as M
from vf.corpus import sample_sources
from vf import gen_texts as G

PROP = "C03"
LEVEL = "exploration"
META = {
    "engine": "crash-time-monitor",
    "technique": "runtime monitor: crash / recursion / CPU-time monitors around the real indexing paths (pool start-up, didOpen, typed didChange) on prefixes, mutations, token soup and stressors",
    "text": "Hostile document texts (every kind the property names) are indexed by the real server through three routes while monitors watch for failures reported to the client, exceptions at hooked sites, swallowed RecursionErrors, CPU time and hangs. Held on K texts per generator class; 'all strings' is sampled. Also: the complete list of ~52 000 single-token mutations of ~120 statement templates (one slice per case), macro-expansion stressors, numeric pp_defs, and in-line edits of an open document after each of which the server's index of the file is compared with a from-scratch parse of its own buffer.",
    "note": "trusted: monitors only (no oracle of correct output is needed); time budget is CPU seconds max(2, 0.02*lines) with isolated re-run of suspects; pp_defs values are strings, numbers or booleans",
}
RULE = ("document texts: line- and character-prefixes of the repository samples, random mutations (delete/duplicate/swap lines, insert "
        "punctuation, truncate, paste directives), token soup over ~150 keywords/punctuation/directives with fixed-form column markers, "
        "and a fixed list of stressors; each under a random free/fixed, plain/preprocessed suffix and with/without pp_defs; routes: "
        "pool start-up (initialize), didOpen from disk, didChange typing. evaluations = (text, route) pairs indexed; "
        "distinct = distinct (text, suffix) fingerprints")
ASSUME = ["CPU budget per text max(2 s, 0.02 s * lines); typical cost is <1 ms so a budget overrun is 3 orders of magnitude",
          "pp_defs values are strings, numbers or booleans", "texts are delivered as UTF-8 except the explicit non-UTF-8 stressor written as bytes"]


def plan(tier):
    if tier == "quick":
        return {"ncases": 2400, "nshards": 16, "budget_s": 70, "floor": 6000, "stall_s": 25}
    return {"ncases": 24000, "nshards": 16, "budget_s": 1500, "floor": 100000, "stall_s": 120}


FAIL_WORDS = ("failed", "Error during", "exception", "Exception", "Unexpected error")


def gen_texts(ctx, i, rng, n):
    samples = sample_sources()
    out = []
    if i == 0:
        for tag, t in G.stressors(rng):
            out.append(("stress:" + tag, t, None))
        return out
    # near-miss statements: one token of a statement template deleted, doubled, swapped or replaced; the list of all single mutations
    # (51 500) is cut into one slice per case, so that a run of all cases covers it completely
    allm = G.all_stmt_mutations()
    ncases = plan(ctx.tier)["ncases"] - 1
    per = -(-len(allm) // ncases)
    for slot, k, tag, st in allm[(i - 1) * per:i * per]:
        out.append((f"stmt-mutation:{slot}{k}:{tag.split(':')[0]}", G.wrap_stmt(slot, st, alone=rng.random() < 0.15), ".F90" if slot == "PP" else rng.choice([".f90", ".f90", ".F90"])))
    for _ in range(max(8, n - per)):
        r = rng.random()
        p, t = rng.choice(samples)
        ext = os.path.splitext(p)[1]
        t = t.replace("\r\n", "\n")
        if len(t) > 12000:
            ls = t.split("\n")
            a = rng.randrange(0, max(1, len(ls) - 150))
            t = "\n".join(ls[a:a + 150])
        if r < 0.3:
            ls = t.split("\n")
            k = rng.randint(0, len(ls))
            out.append(("line-prefix", "\n".join(ls[:k]) + ("\n" if rng.random() < 0.5 else ""), ext))
        elif r < 0.45:
            out.append(("char-prefix", t[:rng.randint(0, len(t))], ext))
        elif r < 0.7:
            m = t
            for _ in range(rng.randint(1, 4)):
                m = G.mutate(rng, m)
            out.append(("mutation", m, ext))
        elif r < 0.95:
            out.append(("soup", G.token_soup(rng), None))
        else:
            tag, s = rng.choice(G.stressors(rng))
            if isinstance(s, str):
                s = G.mutate(rng, s)
            out.append(("stress-mut:" + tag, s, None))
    return out


def budget(text):
    n = text.count(b"\n" if isinstance(text, bytes) else "\n") + 1
    return max(2.0, 0.02 * n)


def classify_exc(ev, cls):
    label, typ, func, msg, tb = ev
    return f"{label}:{typ}@{func}"


def run_case(ctx, i, rng):
    res = Result()
    exc = M.ExcLog()
    from fortls.parsers.internal.parser import FortranFile
    M.hook_exceptions(FortranFile, "parse", "parse", exc)
    M.hook_exceptions(FortranFile, "check_file", "check_file", exc)
    recmon = M.recursion_monitor()
    n = 28 if ctx.tier == "quick" else 40
    texts = gen_texts(ctx, i, rng, n)
    pp = rng.random() < 0.4
    args = ["--pp_defs", rng.choice(['{"A": "1", "B": "", "X": "0"}', '{"A": 1, "B": "", "X": 0, "HAVE_MPI": 1, "T": true}'])] if pp else []
    if rng.random() < 0.3:
        args += ["--incremental_sync"]
    files = {}
    meta = []
    for k, (cls, text, ext) in enumerate(texts):
        ext = G.ext_for(rng, ext)
        name = f"f{k}{ext}"
        if isinstance(text, str) and "@SELF@" in text:
            name = f"f{k}.F90"
            text = text.replace("@SELF@", name)
        meta.append((cls, text, name))
    # route 1: pool start-up on a third of the texts
    pre = [m for k, m in enumerate(meta) if k % 3 == 0]
    with H.Workspace({name: text for _, text, name in pre}) as ws:
        srv = H.Server(args, nthreads=rng.choice([1, 2, 4]))
        ctx.mark({"route": "initialize", "files": {name: (text if isinstance(text, str) else repr(text)) for _, text, name in pre}})
        t0 = time.process_time()
        ev = srv.initialize(ws.root)
        dt = time.process_time() - t0
        res.count("evaluations", len(pre))
        res.count("route_initialize", len(pre))
        if ev[0] != "resp":
            res.violation("initialize:error-response", f"initialize answered {ev[:4]!r}", {"files": {n: str(t) for _, t, n in pre}, "args": args})
        for e in srv.conn.out:
            if e[0] == "notif" and e[1] == "window/showMessage" and any(w in str(e[2].get("message")) for w in FAIL_WORDS):
                msg = str(e[2].get("message"))
                fname = next((n for _, _, n in pre if n in msg), None)
                txt = next((t for _, t, n in pre if n == fname), None)
                kind = "Error during parsing" if "Error during parsing" in msg else ("recursion-limit" if "recursion" in msg.lower() else "other")
                res.violation(f"initialize:file-refused:{kind}", msg[:300], {"file": fname, "text": txt if isinstance(txt, str) else repr(txt), "args": args})
        nrec, where = recmon.take()
        if nrec:
            res.violation(f"recursion:RecursionError-in-fortls@{where}", f"{nrec} RecursionError(s) raised inside fortls during start-up",
                          {"files": {n: str(t) for _, t, n in pre}, "args": args})
        for (cls, text, name) in pre:
            res.kind("class:" + cls.split(":")[0])
            query(res, srv, ws, name, text, cls, args, exc, recmon, "initialize")
        # route 2: didOpen from disk
        for k, (cls, text, name) in enumerate(meta):
            if k % 3 == 0:
                continue
            ws.write(name, text)
            ctx.mark({"route": "didOpen", "file": name, "text": text if isinstance(text, str) else repr(text), "args": args})
            res.seen(name.split(".")[-1], text)
            res.kind("class:" + cls.split(":")[0])
            uri = ws.uri(name)
            exc.take()
            t0 = time.process_time()
            ev = srv.did_open(uri)
            dt = time.process_time() - t0
            res.count("evaluations")
            res.count("route_didOpen")
            judge(res, ev, exc, recmon, dt, text, name, cls, args, "didOpen")
            query(res, srv, ws, name, text, cls, args, exc, recmon, "didOpen")
            # route 3: type a short text character by character into an empty buffer (incremental servers only)
            if "--incremental_sync" in args and isinstance(text, str) and len(text) <= 160 and k % 2 == 1:
                tname = "t_" + name
                ws.write(tname, "")
                turi = ws.uri(tname)
                srv.did_open(turi)
                line, col = 0, 0
                ctx.mark({"route": "typing", "file": tname, "text": text, "args": args})
                t0 = time.process_time()
                allev = []
                for ch in text.replace("\r", ""):
                    allev += srv.did_change(turi, [{"range": {"start": {"line": line, "character": col}, "end": {"line": line, "character": col}}, "text": ch}])
                    if ch == "\n":
                        line, col = line + 1, 0
                    else:
                        col += 1
                dt = time.process_time() - t0
                res.count("evaluations")
                res.count("route_typing")
                res.count("typed_characters", len(text))
                judge(res, allev, exc, recmon, dt / max(1, len(text)) , text, tname, cls, args, "typing")
                query(res, srv, ws, tname, text, cls, args, exc, recmon, "typing")
        # route 4: edits inside a line of an open document (what typing produces): afterwards the index must be the index of the buffer,
        # i.e. equal to what a from-scratch parse of the same text gives -- not the previous version's symbols
        if "--incremental_sync" in args:
            base = [m for m in meta if isinstance(m[1], str) and m[0].startswith(("stmt-mutation:", "line-prefix", "mutation")) and 0 < len(m[1]) < 6000][:4]
            for cls, text, name in base:
                ename = "e_" + name
                ws.write(ename, text)
                euri, epath = ws.uri(ename), ws.path(ename)
                srv.did_open(euri)
                cur = srv.lines_of(epath)
                if cur is None:
                    continue
                cur = list(cur)
                edits = []
                for _ in range(rng.randint(1, 6)):
                    ln = rng.randrange(len(cur))
                    L = cur[ln]
                    op = rng.randrange(6)
                    if op == 0:      # comment the line out / in
                        a, b, t = (0, 1, "") if L.startswith("!") else (len(L) - len(L.lstrip()), len(L) - len(L.lstrip()), "!")
                    elif op == 1:    # delete a word
                        ms = list(re.finditer(r"[A-Za-z_]\w*", L))
                        if not ms:
                            continue
                        m_ = rng.choice(ms)
                        a, b, t = m_.start(), m_.end(), ""
                    elif op == 2:    # insert a character
                        a = b = rng.randint(0, len(L))
                        t = rng.choice(list("!&'\"(),=:;% ") + ["end ", "integer :: ", "contains", "x"])
                    elif op == 3:    # cut the tail
                        a, b, t = rng.randint(0, len(L)), len(L), ""
                    elif op == 4:    # replace a word by another word of the document
                        ms = list(re.finditer(r"[A-Za-z_]\w*", L))
                        words = re.findall(r"[A-Za-z_]\w*", text) or ["x"]
                        if not ms:
                            continue
                        m_ = rng.choice(ms)
                        a, b, t = m_.start(), m_.end(), rng.choice(words)
                    else:            # empty the line
                        a, b, t = 0, len(L), ""
                    ch = {"range": {"start": {"line": ln, "character": a}, "end": {"line": ln, "character": b}}, "text": t}
                    edits.append(ch)
                    cur[ln] = L[:a] + t + L[b:]
                    ctx.mark({"route": "inline-edit", "file": ename, "text": text, "edits": edits, "args": args})
                    exc.take()
                    ev = srv.did_change(euri, [ch])
                    res.count("evaluations")
                    res.count("route_inline_edit")
                    judge(res, ev, exc, recmon, 0.0, text, ename, cls, args, "inline-edit")
                    got = srv.lines_of(epath)
                    fobj = srv.ls.workspace.get(epath)
                    if got != cur or fobj is None:
                        break  # buffer fidelity is C02's business
                    if not compare_index(res, srv, epath, cur, args, {"route": "inline-edit", "file": ename, "text": text, "edits": list(edits), "args": args}):
                        break
        if i % 40 == 1:
            res.sample({"class": meta[0][0], "file": meta[0][2], "text": str(meta[0][1])[:300]}, limit=1)
    return res


def compare_index(res, srv, epath, cur, args, wit):
    """the live index of the file against a from-scratch parse of the buffer; False = stop editing this document"""
    from fortls.parsers.internal.parser import FortranFile
    fobj = srv.ls.workspace.get(epath)
    try:
        fresh = FortranFile(epath, srv.ls.pp_suffixes)
        fresh.set_contents(list(cur), detect_format=False)
        fresh.fixed = fobj.fixed  # source form is not re-detected on in-line edits; that is not what this monitor is about
        fa = fresh.parse(pp_defs=dict(json.loads(args[1])) if args[:1] == ["--pp_defs"] else {}, include_dirs=set(srv.ls.include_dirs))
    except Exception:
        return False  # a text that cannot be parsed from scratch either is reported by the other routes
    d_live, d_fresh = ast_dump(fobj.ast), ast_dump(fa)
    if d_live != d_fresh:
        only_live = [x for x in d_live if x not in d_fresh][:3]
        only_fresh = [x for x in d_fresh if x not in d_live][:3]
        res.violation("inline-edit:index-is-not-the-index-of-the-buffer",
                      f"after {len(wit['edits'])} in-line edit(s) (last {wit['edits'][-1]}) the server's index differs from a from-scratch index of its own buffer: only in the server's {only_live}; only from scratch {only_fresh}", wit)
        return False
    return True


def ast_dump(ast):
    """what the index of one file says: scopes with their extent, the entities declared in each and the USE statements"""
    out = []

    def ty(o):
        t = o.get_type(no_link=True)
        return "proc" if t in (-1, 2, 3) else t  # a MODULE PROCEDURE body becomes a subroutine or function when it is linked to its interface

    for sc in ast.scope_list:
        try:
            kids = tuple(sorted((c.name.lower(), ty(c), c.sline) for c in sc.children))
        except Exception:
            kids = ("?",)
        out.append((sc.FQSN, ty(sc), sc.sline, sc.eline, kids, tuple(sorted((str(u.mod_name), u.line_number) for u in sc.use))))
    return sorted(out, key=str)


def judge(res, events, exc, recmon, dt, text, name, cls, args, route):
    w = {"route": route, "file": name, "class": cls, "text": text if isinstance(text, str) else repr(text), "args": args}
    hooked = exc.take()
    for e in events:
        if e[0] == "notif" and e[1] == "window/showMessage":
            msg = str(e[2].get("message"))
            if any(x in msg for x in FAIL_WORDS):
                if hooked:
                    key = f"{route}:" + classify_exc(hooked[-1], cls)
                    w["traceback"] = hooked[-1][4]
                else:
                    key = f"{route}:refused:" + ("Error during parsing" if "Error during parsing" in msg else msg.split(":")[0][:40])
                res.violation(key, f"server reported: {msg[:300]}", w)
                hooked = []
        elif e[0] == "err":
            res.violation(f"{route}:error-response", f"error response {e[1:4]!r} while indexing", w)
    for h in hooked:
        # an exception at a hooked site that the server swallowed without telling the client
        res.violation(f"{route}:swallowed:" + classify_exc(h, cls), f"{h[1]}: {h[3]}", dict(w, traceback=h[4]))
    nrec, where = recmon.take()
    if nrec:
        res.violation(f"recursion:RecursionError-in-fortls@{where}", f"{nrec} RecursionError(s) raised inside fortls ({route})", w)
    if dt > budget(text):
        res.violation(f"time:cpu-budget-exceeded:{route}", f"{dt:.2f}s CPU for {len(text)} chars (budget {budget(text):.1f}s)", w)


def query(res, srv, ws, name, text, cls, args, exc, recmon, route):
    """the produced index must be queryable: outline, scopes at every line, diagnostics"""
    w = {"route": route, "file": name, "class": cls, "text": text if isinstance(text, str) else repr(text), "args": args}
    uri, path = ws.uri(name), ws.path(name)
    fobj = srv.ls.workspace.get(path)
    if fobj is None or fobj.ast is None:
        res.violation(f"{route}:file-not-indexed", "file is not in the workspace after indexing", w)
        return
    r = srv.request("textDocument/documentSymbol", {"textDocument": {"uri": uri}})
    res.count("outline_requests")
    if r[0] != "resp":
        res.violation("query:documentSymbol-error", f"{r[1:4]!r}", w)
    elif M.shape_ok("textDocument/documentSymbol", r[2]):
        res.violation("query:documentSymbol-shape", M.shape_ok("textDocument/documentSymbol", r[2]), w)
    try:
        for ln in range(0, min(fobj.nLines + 2, 400), 1 if fobj.nLines < 80 else 7):
            fobj.ast.get_scopes(ln)
            fobj.ast.get_inner_scope(ln)
        res.count("scope_queries")
    except Exception as e:  # noqa
        res.violation(f"query:get_scopes:{type(e).__name__}", str(e)[:200], w)
    exc.take()
    t0 = time.process_time()
    d, ev = srv.diagnostics(uri)
    dt = time.process_time() - t0
    res.count("diagnostic_passes")
    hooked = exc.take()
    for e in ev:
        if e[0] == "err" or (e[0] == "notif" and e[1] == "window/showMessage" and "failed" in str(e[2].get("message"))):
            key = "query:diagnostics:" + (classify_exc(hooked[-1], cls) if hooked else "failed")
            res.violation(key, f"{e[1:4]!r}"[:300], dict(w, traceback=hooked[-1][4] if hooked else None))
    nrec, where = recmon.take()
    if nrec:
        res.violation(f"recursion:RecursionError-in-fortls@{where}", f"{nrec} RecursionError(s) raised inside fortls (queries after {route})", w)
    if dt > budget(text):
        res.violation("time:cpu-budget-exceeded:diagnostics", f"{dt:.2f}s CPU", w)


def on_stuck(i, why, tail, mark):
    return {"key": "hang:" + (mark or {}).get("route", "?"), "what": f"case {i} did not terminate ({why}); stack tail: {tail[-600:]}", "witness": mark, "case": i}


def replay(ctx, w):
    res = Result()
    exc = M.ExcLog()
    from fortls.parsers.internal.parser import FortranFile
    M.hook_exceptions(FortranFile, "parse", "parse", exc)
    M.hook_exceptions(FortranFile, "check_file", "check_file", exc)
    recmon = M.recursion_monitor()
    files = w.get("files") or {w["file"]: w["text"]}
    args = w.get("args", [])
    with H.Workspace({}) as ws:
        srv = H.Server(args)
        if w.get("route") == "initialize":
            for n, t in files.items():
                ws.write(n, t)
        srv.initialize(ws.root)
        if w.get("route") == "inline-edit":
            ws.write(w["file"], w["text"])
            srv.did_open(ws.uri(w["file"]))
            cur = list(srv.lines_of(ws.path(w["file"])))
            done = []
            for ch in w["edits"]:
                ln, a, b = ch["range"]["start"]["line"], ch["range"]["start"]["character"], ch["range"]["end"]["character"]
                cur[ln] = cur[ln][:a] + ch["text"] + cur[ln][b:]
                done.append(ch)
                srv.did_change(ws.uri(w["file"]), [ch])
                if srv.lines_of(ws.path(w["file"])) != cur or not compare_index(res, srv, ws.path(w["file"]), cur, args, dict(w, edits=done)):
                    break
            return res
        for e in srv.conn.out:
            if e[0] == "notif" and e[1] == "window/showMessage" and any(x in str(e[2]) for x in FAIL_WORDS):
                res.violation("replayed", str(e[2])[:300], w)
        for n, t in files.items():
            ws.write(n, t)
            t0 = time.process_time()
            ev = srv.did_open(ws.uri(n))
            judge(res, ev, exc, recmon, time.process_time() - t0, t, n, w.get("class", "?"), args, "didOpen")
            query(res, srv, ws, n, t, w.get("class", "?"), args, exc, recmon, "didOpen")
    return res
