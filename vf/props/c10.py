"""C10 — after saving, answers depend only on the files, not on the edit history.

Differential: after a random history of open / edit (full or ranged didChange streams, sometimes through broken
intermediate states) / save / close / create / delete / rename events that ends with every open buffer saved, the
long-lived server's query battery must equal that of freshly started servers on the same directory.
"""
import difflib
import os
import re

from vf.core import Result
from vf import harness as H
from vf import model as M
from vf import battery as B
from vf.props.c15 import in_child

PROP = "C10"
LEVEL = "exploration"
META = {
    "engine": "differential",
    "technique": "runtime monitor: history exploration (sync-event sequences with model-level edits to entities other files depend on) with a differential oracle: long-lived server vs fresh servers on the full query battery at the quiescent end state",
    "text": "Histories of 5-40 sync events over generated multi-file workspaces (cross-file USE, derived types used across files, EXTENDS, INCLUDE, submodules) rename, add and remove modules, types, components, procedures, variables and ONLY items in one file while dependants live in others, deliver the edits as whole-document or line-wise ranged didChange streams (sometimes through broken intermediate text), and create, delete and rename files; after 'save all' the long-lived server must answer the whole battery (outline, workspace symbols, definition, hover, completion, references, signature help, diagnostics) exactly like two fresh servers (queries on which the two fresh servers disagree are skipped and counted). Sampled histories. The first cases are scripted: every declared name of every hand-written dependency file is renamed or its declaration removed once, saved, and all identifiers queried. Edits are also delivered keystroke-like inside a line, and buffers may be closed without saving.",
    "note": "trusted: battery normalisation; equality on client-visible answers only; files created but never opened are not expected to be known; sources share no preprocessor macro names across files",
}
RULE = ("histories: 5-40 events from {open, close, edit(kind in rename-entity, add-entity, remove-entity, change-use, change-extends, replace-file, garbage-then-fix), "
        "save, create, delete, rename-file}; edits delivered full or ranged; evaluations = battery entries compared; distinct = (history, battery key)")
ASSUME = ["at the end every open buffer equals its file", "no preprocessor macro is shared across files"]


def plan(tier):
    if tier == "quick":
        return {"ncases": 640, "nshards": 16, "budget_s": 80, "floor": 50000, "stall_s": 70}
    return {"ncases": 6000, "nshards": 16, "budget_s": 2400, "floor": 1500000, "stall_s": 300}


# ------------------------------------------------------------------------------------------------
# model-level edits (textual, on one file)

DECL = re.compile(r"^(\s*)(integer|real|logical|complex|type\([\w$]+\)|class\([\w$*]+\))([^:\n]*)::\s*([A-Za-z_][\w$]*)\s*$", re.I)
PROC = re.compile(r"^(\s*)(subroutine|function)\s+([A-Za-z_][\w$]*)", re.I)
TYPEDEF = re.compile(r"^(\s*)type\b[^(\n]*::\s*([A-Za-z_][\w$]*)\s*$", re.I)
MODULE = re.compile(r"^(\s*)module\s+([A-Za-z_][\w$]*)\s*$", re.I)


def edit_text(rng, text, n):
    """-> (new text, kind)"""
    ls = text.split("\n")
    kind = rng.choice(["rename-entity", "rename-entity", "add-entity", "add-entity", "remove-entity", "change-use", "change-extends", "rename-module"])
    idx = list(range(len(ls)))
    rng.shuffle(idx)
    if kind == "rename-entity":
        for k in idx:
            m = DECL.match(ls[k]) or PROC.match(ls[k]) or TYPEDEF.match(ls[k])
            if m:
                old = m.group(m.lastindex)
                new = old + f"_v{n}"
                return re.sub(rf"(?<![\w$]){re.escape(old)}(?![\w$])", new, text), kind
    if kind == "rename-module":
        for k in idx:
            m = MODULE.match(ls[k])
            if m:
                old = m.group(2)
                return re.sub(rf"(?<![\w$]){re.escape(old)}(?![\w$])", old + f"x{n}", text), kind
    if kind == "add-entity":
        for k in idx:
            m = DECL.match(ls[k])
            if m:
                ls.insert(k + 1, f"{m.group(1)}integer :: added_{n}")
                return "\n".join(ls), kind
    if kind == "remove-entity":
        for k in idx:
            if DECL.match(ls[k]):
                del ls[k]
                return "\n".join(ls), kind
    if kind == "change-use":
        for k in idx:
            m = re.match(r"^(\s*use\s+\w+\s*,\s*only\s*:\s*)(.+)$", ls[k], re.I)
            if m and "," in m.group(2):
                items = [x.strip() for x in m.group(2).split(",")]
                items.pop(rng.randrange(len(items)))
                ls[k] = m.group(1) + ", ".join(items)
                return "\n".join(ls), kind
            m = re.match(r"^(\s*)use\s+(\w+)\s*$", ls[k], re.I)
            if m and rng.random() < 0.5:
                del ls[k]
                return "\n".join(ls), kind
    if kind == "change-extends":
        tnames = re.findall(r"::\s*(t\d+_\d+)\s*$", text, re.M)
        for k in idx:
            m = re.search(r"extends\((\w+)\)", ls[k], re.I)
            if m and tnames:
                ls[k] = ls[k].replace(m.group(0), f"extends({rng.choice(tnames)})") if rng.random() < 0.6 else ls[k].replace(", " + m.group(0), "").replace("," + m.group(0), "")
                return "\n".join(ls), kind
    # fallback: append a comment (still an edit)
    return text + f"! edit {n}\n", "comment"


def as_changes(rng, old, new, incremental):
    """deliver old -> new as a list of didChange notifications (each a list of content changes)"""
    if not incremental or rng.random() < 0.3:
        return [[{"text": new}]]
    a, b = old.split("\n"), new.split("\n")
    sm = difflib.SequenceMatcher(a=a, b=b, autojunk=False)
    notifs = []
    for tag, i1, i2, j1, j2 in reversed(sm.get_opcodes()):
        if tag == "equal":
            continue
        if tag == "replace" and i2 - i1 == j2 - j1 and rng.random() < 0.6:
            # keystroke-like delivery: each changed line is edited in place (range inside the line, no line break in the text)
            for k in reversed(range(i2 - i1)):
                x, y = a[i1 + k], b[j1 + k]
                pre = 0
                while pre < min(len(x), len(y)) and x[pre] == y[pre]:
                    pre += 1
                suf = 0
                while suf < min(len(x), len(y)) - pre and x[len(x) - 1 - suf] == y[len(y) - 1 - suf]:
                    suf += 1
                notifs.append([{"range": {"start": {"line": i1 + k, "character": pre}, "end": {"line": i1 + k, "character": len(x) - suf}}, "text": y[pre:len(y) - suf]}])
            continue
        # replace lines i1:i2 by b[j1:j2]
        if i2 < len(a):
            rg = {"start": {"line": i1, "character": 0}, "end": {"line": i2, "character": 0}}
            txt = "".join(l + "\n" for l in b[j1:j2])
        else:
            # up to the end of the document
            if i1 > 0:
                rg = {"start": {"line": i1 - 1, "character": len(a[i1 - 1])}, "end": {"line": len(a) - 1, "character": len(a[-1])}}
                txt = "".join("\n" + l for l in b[j1:j2])
            else:
                rg = {"start": {"line": 0, "character": 0}, "end": {"line": len(a) - 1, "character": len(a[-1])}}
                txt = "\n".join(b[j1:j2])
        notifs.append([{"range": rg, "text": txt}])
    if rng.random() < 0.3 and notifs:
        # pass through a syntactically broken intermediate state
        notifs = [[{"range": {"start": {"line": 0, "character": 0}, "end": {"line": 0, "character": 0}}, "text": "end subroutine (\n"}],
                  [{"range": {"start": {"line": 0, "character": 0}, "end": {"line": 1, "character": 0}}, "text": ""}]] + notifs
    return notifs


def apply_changes(text, notifs):
    from vf.props.c02 import apply_ref
    for chs in notifs:
        for ch in chs:
            text = apply_ref(text, ch)
    return text


def fresh_battery(root, files, pos, list_seed, args):
    from vf import inproc_monitors as IM

    def fn():
        IM.install_listdir(list_seed)
        ws = H.Workspace(root=root)
        srv = H.Server(args, nthreads=2)
        ev = srv.initialize(root)
        if ev[0] != "resp":
            return {"INIT": str(ev[:4])}
        return B.run(B.InprocClient(srv, ws), root, files, pos)
    return in_child(fn)


def execute(initial, events, args, pos_rng_seed, per_file, nthreads=2):
    """run a recorded history on a long-lived server, then compare its battery with two fresh servers.
    events: ("open", f) | ("change", f, [content changes]) | ("save", f, text) | ("close", f) | ("create", f, text) | ("delete", f)
    -> (disk, differences [(key, desc)], skipped, compared)"""
    import random
    from collections import Counter
    disk = dict(initial)
    with H.Workspace(disk) as ws:
        srv = H.Server(args, nthreads=nthreads)
        srv.initialize(ws.root)
        for ev in events:
            if ev[0] == "open":
                srv.did_open(ws.uri(ev[1]), disk.get(ev[1], ""))
            elif ev[0] == "change":
                srv.did_change(ws.uri(ev[1]), ev[2])
            elif ev[0] == "save":
                ws.write(ev[1], ev[2])
                disk[ev[1]] = ev[2]
                srv.did_save(ws.uri(ev[1]))
            elif ev[0] == "close":
                srv.did_close(ws.uri(ev[1]))
            elif ev[0] == "create":
                ws.write(ev[1], ev[2])
                disk[ev[1]] = ev[2]
                srv.did_open(ws.uri(ev[1]), ev[2])
            elif ev[0] == "query":
                # the user looks at things in between: answers are discarded, but caches get filled
                f_, ln_, col_ = ev[1], ev[2], ev[3]
                pp_ = {"textDocument": {"uri": ws.uri(f_)}, "position": {"line": ln_, "character": col_}}
                for m_ in ("textDocument/completion", "textDocument/hover", "textDocument/definition", "textDocument/signatureHelp"):
                    srv.request(m_, pp_)
            elif ev[0] == "delete":
                if os.path.exists(ws.path(ev[1])):
                    os.remove(ws.path(ev[1]))
                disk.pop(ev[1], None)
                srv.did_close(ws.uri(ev[1]))
        pos = B.positions(disk, random.Random(pos_rng_seed), per_file=per_file)
        longlived = B.run(B.InprocClient(srv, ws), ws.root, disk, pos)
        st1, f1 = fresh_battery(ws.root, disk, pos, "sorted", args)
        st2, f2 = fresh_battery(ws.root, disk, pos, pos_rng_seed, args)
        if st1 != "ok" or st2 != "ok" or "INIT" in f1 or "INIT" in f2:
            return disk, None, 0, 0
        diffs, skipped, compared = [], 0, 0
        for k in sorted(f1, key=str):
            if f1[k] != f2.get(k):
                skipped += 1
                continue
            compared += 1
            a_, b_ = longlived.get(k), f1[k]
            if a_ != b_:
                if isinstance(a_, tuple) and isinstance(b_, tuple):
                    ca, cb = Counter(a_), Counter(b_)
                    sym = list((ca - cb)) + list((cb - ca))
                    if sym and all("inc_decl.f90" in str(x) for x in sym):
                        diffs.append((("include-fragment",) + tuple(k), "entities of the shared INCLUDE fragment belong to another includer"))
                        continue
                if len(k) > 1 and isinstance(k[1], str) and re.match(r"\s*submodule\s*\(", disk.get(k[1], ""), re.I) and k[0] in ("completion", "hover", "diagnostics", "signature", "outline", "definition", "references"):
                    # procedures of a submodule take over the dummy arguments of the interface in the parent module when the two are linked
                    diffs.append((("submodule-signature",) + tuple(k), f"long-lived {str(a_)[:200]} != fresh {str(b_)[:200]}"))
                    continue
                    desc = f"only long-lived: {[str(x)[:220] for x in (ca - cb)][:3]} only fresh: {[str(x)[:220] for x in (cb - ca)][:3]}"
                else:
                    desc = f"long-lived {str(a_)[:260]} != fresh {str(b_)[:260]}"
                diffs.append((k, desc))
        return disk, diffs, skipped, compared


def minimise(initial, events, args, seed, per_file, key0):
    """delta debugging on the event list: drop events while a difference of the same battery kind persists"""
    cur = list(events)
    changed = True
    while changed and len(cur) > 1:
        changed = False
        for k in range(len(cur)):
            trial = cur[:k] + cur[k + 1:]
            try:
                _, diffs, _, _ = execute(initial, trial, args, seed, per_file)
            except Exception:
                continue
            if diffs and any(d[0][0] == key0 for d in diffs):
                cur = trial
                changed = True
                break
    return cur


def scripted_edits():
    """complete list of (file, kind, old name) over the hand-written dependency files: every declared name renamed, every declaration line removed"""
    out = []
    for f in sorted(B.EXTRA_FILES):
        if not f.endswith((".f90", ".F90")):
            continue
        for k, line in enumerate(B.EXTRA_FILES[f].split("\n")):
            m = DECL.match(line) or PROC.match(line) or TYPEDEF.match(line)
            if m:
                out.append((f, "rename", m.group(m.lastindex), k))
                if DECL.match(line):
                    out.append((f, "remove-line", m.group(m.lastindex), k))
    return out


def scripted_case(ctx, i, rng, res):
    """one edit of one hand-written file (the provider of a submodule, generic interface, binding, include or macro), saved; then every
    identifier of every hand-written file is queried on the long-lived and on fresh servers"""
    f, kind, name, k = scripted_edits()[i]
    initial = dict(B.EXTRA_FILES)
    text = initial[f]
    if kind == "rename":
        new = re.sub(rf"(?<![\w$]){re.escape(name)}(?![\w$])", name + "_sv", text)
    else:
        ls = text.split("\n")
        del ls[k]
        new = "\n".join(ls)
    incremental = rng.random() < 0.5
    args = ["--incremental_sync"] if incremental else []
    events = []
    others = sorted(x for x in initial if x != f and x.endswith((".f90", ".F90")))
    for o in rng.sample(others, min(len(others), 3)):
        events.append(("open", o))
    qt = text.split("\n")
    for _ in range(4):
        cand = [(ln, m.start() + 1) for ln, l in enumerate(qt) for m in re.finditer(r"[A-Za-z_]\w*", l.split("!")[0])]
        ln, col = rng.choice(cand)
        events.append(("query", f, ln, col))
    events.append(("open", f))
    for chs in as_changes(rng, text, new, incremental):
        events.append(("change", f, chs))
    events.append(("save", f, new))
    if rng.random() < 0.5:
        events.append(("close", f))
    res.kind("class:scripted:" + kind)
    seed = rng.randrange(10 ** 6)
    final, diffs, skipped, compared = execute(initial, events, args, seed, 400, nthreads=rng.choice([1, 2]))
    if diffs is None:
        res.inconclusive.append("fresh server failed")
        return res
    res.count("evaluations", compared)
    res.seen("scripted", f, kind, name)
    seen_kinds = set()
    for kk, desc in diffs:
        if kk[0] in seen_kinds:
            continue
        seen_kinds.add(kk[0])
        res.violation(diff_key(kk), f"scripted {kind} of {name} in {f}: battery entry {kk}: {desc}",
                      {"initial": initial, "events": events, "args": args, "seed": seed, "per_file": 400, "entry": [str(x) for x in kk]})
    return res


def run_case(ctx, i, rng):
    res = Result()
    if i < len(scripted_edits()):
        return scripted_case(ctx, i, rng, res)
    w = M.gen_workspace(rng, style=None)
    w2 = M.gen_workspace(rng, style=None)
    initial = dict(w.files)
    initial.update(B.EXTRA_FILES)
    disk = dict(initial)
    incremental = rng.random() < 0.7
    args = ["--incremental_sync"] if incremental else []
    events, kinds = [], []
    buf = {}
    nev = rng.randint(5, 40 if ctx.tier != "quick" else 25)
    nedit = 0
    for step in range(nev):
        srcs = sorted(f for f in disk if f.endswith((".f90", ".F90")))
        if rng.random() < 0.5 and srcs:
            # queries in between (member accesses preferred): they populate per-object caches with the current versions
            for _ in range(rng.randint(1, 6)):
                qf = rng.choice(srcs)
                qt = buf.get(qf, disk[qf]).split("\n")
                cand = [(ln, m.end()) for ln, l in enumerate(qt) for m in re.finditer(r"%", l.split("!")[0])]
                if not cand or rng.random() < 0.3:
                    cand = [(ln, m.start() + 1) for ln, l in enumerate(qt) for m in re.finditer(r"[A-Za-z_]\w*", l.split("!")[0])]
                if cand:
                    ln, col = rng.choice(cand)
                    events.append(("query", qf, ln, col))
        r = rng.random()
        if r < 0.18 and srcs:
            f = rng.choice(srcs)
            if f not in buf:
                events.append(("open", f))
                buf[f] = disk[f]
        elif r < 0.6 and srcs:
            f = rng.choice(srcs)
            xs = [x for x in srcs if x in B.EXTRA_FILES]
            if xs and rng.random() < 0.35:
                f = rng.choice(xs)  # the hand-written files are few but carry the cross-file dependencies (submodule, generic, bindings, includes)
            if f not in buf:
                events.append(("open", f))
                buf[f] = disk[f]
            nedit += 1
            if rng.random() < 0.15 and f in w2.files:
                new, kind = w2.files[f], "replace-file"
            else:
                new, kind = edit_text(rng, buf[f], nedit)
            for chs in as_changes(rng, buf[f], new, incremental):
                events.append(("change", f, chs))
                buf[f] = apply_changes(buf[f], [chs])
            kinds.append(kind)
            res.kind("edit:" + kind)
        elif r < 0.72 and buf:
            f = rng.choice(sorted(buf))
            events.append(("save", f, buf[f]))
            disk[f] = buf[f]
        elif r < 0.8 and buf:
            f = rng.choice(sorted(buf))
            if buf[f] != disk[f]:
                if rng.random() < 0.5:
                    events.append(("save", f, buf[f]))
                    disk[f] = buf[f]
                else:
                    # closed without saving: the editor discards the buffer, the file on disk is the truth again
                    kinds.append("close-discard")
                    res.kind("event:close-discard")
            events.append(("close", f))
            del buf[f]
        elif r < 0.88:
            nm = f"newdir/created_{step}.f90"
            src = rng.choice(sorted(w2.files))
            text = re.sub(r"(?<![\w$])(m\d|main|ext_sub)(?![\w$])", lambda m: f"c{step}_" + m.group(1), w2.files[src])
            events.append(("create", nm, text))
            disk[nm] = text
            buf[nm] = text
            kinds.append("create")
        elif r < 0.95 and srcs:
            f = rng.choice(srcs)
            if f in B.EXTRA_FILES:
                continue
            events.append(("delete", f))
            del disk[f]
            buf.pop(f, None)
            kinds.append("delete")
        elif srcs:
            f = rng.choice(srcs)
            if f in B.EXTRA_FILES:
                continue
            text = buf.get(f, disk[f])
            nf = f"moved/{os.path.basename(f)[:-4]}_{step}.f90"
            events.append(("delete", f))
            del disk[f]
            buf.pop(f, None)
            events.append(("create", nf, text))
            disk[nf] = text
            buf[nf] = text
            kinds.append("rename-file")
    for f in sorted(buf):
        events.append(("save", f, buf[f]))
        disk[f] = buf[f]
    for ev_ in events:
        res.kind("event:" + ev_[0])
    ctx.mark({"events": len(events)})
    seed = rng.randrange(10 ** 6)
    per_file = 10 if ctx.tier == "quick" else 25
    final, diffs, skipped, compared = execute(initial, events, args, seed, per_file, nthreads=rng.choice([1, 2, 4]))
    if diffs is None:
        res.inconclusive.append("fresh server failed")
        return res
    res.count("evaluations", compared)
    res.count("order_sensitive_skipped", skipped)
    res.seen(i, len(events), str(kinds))
    for n in range(compared // 50 + 1):
        res.seen(i, "bucket", n)
    seen_kinds = set()
    for k, desc in diffs:
        if k[0] in seen_kinds:
            continue
        seen_kinds.add(k[0])
        key = diff_key(k)
        res.violation(key, f"battery entry {k}: {desc}; history kinds {sorted(set(kinds))}",
                      {"initial": initial, "events": events, "args": args, "seed": seed, "per_file": per_file, "entry": [str(x) for x in k]})
    if i % 40 == 0:
        res.sample({"events": [e[:2] for e in events[:14]], "files": sorted(final)}, limit=1)
    return res


def diff_key(k):
    return {"include-fragment": "include:fragment-shared-by-several-includers-has-one-parent",
            "submodule-signature": "submodule:implementation-signature-copied-from-interface-at-link-time"}.get(k[0], f"stale:{k[0]}")


def replay(ctx, w):
    res = Result()
    events = [tuple(e) for e in w["events"]]
    final, diffs, skipped, compared = execute(w["initial"], events, w["args"], w["seed"], w["per_file"])
    seen_kinds = set()
    for k, desc in (diffs or []):
        if k[0] in seen_kinds:
            continue
        seen_kinds.add(k[0])
        res.violation(diff_key(k), f"battery entry {k}: {desc}", {"entry": [str(x) for x in k]})
    return res
