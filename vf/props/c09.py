"""C09 — every positional request is total; every returned range lies in its document.

Monitors: (1) response monitor — no error response, result of the protocol's shape; (2) range monitor — a
recursive walker over *every* outgoing payload (responses and notifications) checking each range against
the text the server currently holds for the target document.
"""
import json
import os
import re

from vf.core import Result, REPO
from vf import harness as H
from vf import monitors as M
from vf.corpus import sample_sources
from vf import gen_texts as G
from vf import relink as RL
from vf import model as MD

PROP = "C09"
LEVEL = "exploration"
META = {
    "engine": "crash-time-monitor",
    "technique": "runtime monitor: response-shape and range monitors on every outgoing message while sweeping positions x all nine positional methods over samples, mutations and the bundled intrinsic/keyword tables",
    "text": "All nine position-based methods are issued at swept positions (identifier start/middle/end, column 0, end of line, one past it, past end of file) of the repository samples, their mutations, unterminated and empty documents, and with every bundled intrinsic/keyword/statement/module-member name under the cursor; monitors check that no request is answered with an error, that results have the protocol shape and that every range in every outgoing message addresses an existing place. Table sweep is complete over the bundled tables; positions are sampled in quick tier. Three more classes: generated programs (also rendered in fixed form, and submodule/INCLUDE workspaces), relink (consumers swept after their provider module changed shape by save, buffer edit or deletion) and edit-query (unsaved in-line edits interleaved with requests).",
    "note": "trusted: hand-written LSP result-shape validators and range walker; the text a range is checked against is the server's own buffer of the target file (disk content for files not loaded)",
}
RULE = ("(document, position, method) triples: documents = repository sample sources inside their full sample workspace, C03-style mutations, "
        "documents without trailing newline and empty ones; positions = every line x {0, identifier start/middle/end, len, len+1} plus lines "
        "past the end (sampled per document in quick tier); methods = hover, definition, implementation, references, documentHighlight, rename, "
        "signatureHelp, completion, codeAction; plus every name of the bundled intrinsic procedure / keyword / statement / intrinsic-module "
        "tables placed as y = NAME(x), call NAME(x), bare and in a USE..ONLY; evaluations = requests issued; distinct = (document, line, "
        "character, method) fingerprints")
ASSUME = ["requests are well-formed (integer non-negative positions, file URIs)", "rename uses a fresh identifier as newName"]

IDENT = re.compile(r"[A-Za-z_][\w$]*")
METHODS = H.POSITIONAL


def plan(tier):
    if tier == "quick":
        return {"ncases": 700, "nshards": 16, "budget_s": 75, "floor": 50000, "stall_s": 60}
    return {"ncases": 4000, "nshards": 16, "budget_s": 1800, "floor": 400000, "stall_s": 240}


def table_names():
    base = os.path.join(REPO, "fortls", "parsers", "internal")
    names = []
    d = json.load(open(os.path.join(base, "intrinsic.procedures.json")))
    names += [("proc", k) for k in d]
    d = json.load(open(os.path.join(base, "keywords.json")))
    for grp, v in d.items():
        names += [("kw:" + grp, k) for k in v]
    d = json.load(open(os.path.join(base, "statements.json")))
    for grp, v in d.items():
        names += [("stmt:" + grp, k) for k in v]
    d = json.load(open(os.path.join(base, "intrinsic.modules.json")))

    def kids(mod, node):
        for c in node.get("children", []) or []:
            if isinstance(c, dict) and "name" in c:
                names.append(("modmem:" + mod, c["name"]))
                kids(mod, c)
    for mod, v in d.items():
        names.append(("mod", mod))
        kids(mod, v)
    return names


def positions_for(lines, rng, limit):
    pos = []
    for ln, text in enumerate(lines):
        cols = {0, len(text), len(text) + 1}
        for m in IDENT.finditer(text):
            cols.update((m.start(), (m.start() + m.end()) // 2, m.end()))
        for c in cols:
            pos.append((ln, c))
    n = len(lines)
    pos += [(n, 0), (n, 3), (n + 5, 0), (n + 5, 7)]
    if limit and len(pos) > limit:
        tail = pos[-4:]
        pos = rng.sample(pos[:-4], limit - 4) + tail
    return pos


def params_for(method, uri, ln, ch):
    p = {"textDocument": {"uri": uri}, "position": {"line": ln, "character": ch}}
    if method.endswith("rename"):
        p["newName"] = "zz_renamed_q"
    elif method.endswith("references"):
        p["context"] = {"includeDeclaration": True}
    elif method.endswith("codeAction"):
        p = {"textDocument": {"uri": uri}, "range": {"start": {"line": ln, "character": ch}, "end": {"line": ln, "character": ch}},
             "context": {"diagnostics": []}}
    return p


def exc_key(err):
    """mechanism key from an error response: exception type + innermost fortls function"""
    data = err[4] if len(err) > 4 else None
    tb = (data or {}).get("traceback", "") if isinstance(data, dict) else ""
    typ = "Error"
    lines = [l for l in tb.strip().splitlines() if l.strip()]
    if lines:
        typ = lines[-1].split(":")[0].strip().split(".")[-1]
    func = "?"
    for m in re.finditer(r'File "([^"]+)", line \d+, in (\w+)', tb):
        if "fortls" in m.group(1) and "/vf/" not in m.group(1):
            func = m.group(2)
    return f"{typ}@{func}"


class RangeMonitor:
    """attached to Server.monitors; checks every range of every outgoing message"""

    def __init__(self, res, ws, describe):
        self.res, self.ws, self.describe = res, ws, describe
        self.disk_cache = {}
        self.dirty = set()  # uris edited through didChange and not saved since

    def lines(self, srv, uri):
        path = H.path_from_uri(uri)
        ls = srv.lines_of(path)
        if ls is not None:
            return ls, "buffer"
        if path not in self.disk_cache:
            try:
                with open(path, encoding="utf-8", errors="replace") as fh:
                    self.disk_cache[path] = re.split(r"\n|\r\n?", fh.read())
            except OSError:
                self.disk_cache[path] = None
        return self.disk_cache[path], "disk"

    def __call__(self, srv, msg, events):
        req_uri = None
        try:
            req_uri = msg["params"]["textDocument"]["uri"]
        except Exception:
            pass
        for e in events:
            if e[0] == "resp":
                payload, origin = e[2], "response:" + str(msg.get("method"))
            elif e[0] == "notif":
                payload, origin = e[2], "notification:" + e[1]
            else:
                continue
            default = req_uri
            if e[0] == "notif" and isinstance(e[2], dict) and isinstance(e[2].get("uri"), str):
                default = e[2]["uri"]
            for uri, rg, jpath in M.walk_ranges(payload, default):
                self.res.count("ranges_checked")
                if uri is None:
                    self.res.count("ranges_without_uri")
                    continue
                ls, src = self.lines(srv, uri)
                stale = uri in self.dirty and uri != req_uri
                if ls is None:
                    self.res.violation(f"range:target-document-missing:{origin}", f"range addresses {uri} which does not exist",
                                       self.describe(msg, rg, jpath))
                    continue
                why = M.check_range(rg, ls)
                if why:
                    kind = why.split(" ")[0].split(".")[-1].rstrip(":")
                    key = f"range:{origin}:{kind}"
                    if stale:
                        # the other files keep their links into the previous syntax tree of a file that is being edited until it is saved
                        key = "range:link-into-file-edited-and-not-yet-saved"
                    self.res.violation(key, f"{why} in {jpath} ({src} of {os.path.basename(uri)}, {len(ls)} lines)",
                                       self.describe(msg, rg, jpath))


def sweep(res, srv, ws, rel, positions, docinfo):
    uri = ws.uri(rel)
    for (ln, ch) in positions:
        for method in METHODS:
            p = params_for(method, uri, ln, ch)
            r = srv.request(method, p)
            res.count("evaluations")
            short = method.split("/")[-1]
            if r[0] == "err":
                res.kind(f"{short}:error")
                res.violation(f"{short}:{exc_key(r)}", f"{method} at {ln}:{ch} answered error {r[2]} {str(r[3])[:160]}",
                              dict(docinfo, method=method, params=p, traceback=(r[4] or {}).get("traceback", "")[-1500:] if isinstance(r[4], dict) else None))
            elif r[0] == "resp":
                why = M.shape_ok(method, r[2])
                res.kind(f"{short}:" + ("null" if r[2] is None else ("empty" if r[2] in ([], {}) else "value")))
                if why:
                    res.violation(f"{short}:shape", f"{method} at {ln}:{ch}: {why}; got {H.jdump(r[2], 300)}", dict(docinfo, method=method, params=p))
            else:
                res.violation(f"{short}:no-response", f"{method} at {ln}:{ch} got no response", dict(docinfo, method=method, params=p))
            res.seen(rel, ln, ch, short)


def sample_workspace_files():
    return {p: t for p, t in sample_sources()}


def run_case(ctx, i, rng):
    res = Result()
    samples = sample_sources()
    quick = ctx.tier == "quick"
    tables = ctx.cache.get("tables")
    if tables is None:
        tables = ctx.cache["tables"] = table_names()
    n_table_cases = 24
    if i < n_table_cases:
        # exhaustive table sweep, split over n_table_cases cases
        chunk = tables[i::n_table_cases]
        lines = ["program tbl", "  use iso_fortran_env", "  implicit none", "  real :: x, y"]
        targets = []
        for grp, name in chunk:
            if grp.startswith("modmem:"):
                lines.append(f"  ! {grp}")
            for form in (f"  y = {name}(x)", f"  call {name}(x)", f"  {name}", f"  y = x%{name}"):
                col = form.index(name)
                targets.append((len(lines), col, name))
                lines.append(form)
        lines.append("end program tbl")
        # module members also in a USE ... ONLY
        pre = []
        for grp, name in chunk:
            if grp.startswith("modmem:"):
                pre.append(f"  use {grp[7:]}, only: {name}")
        text = "\n".join(lines) + "\n"
        files = {"tbl.f90": text}
        if pre:
            files["tbl2.f90"] = "subroutine tbl2\n" + "\n".join(pre) + "\nend subroutine tbl2\n"
        with H.Workspace(files) as ws:
            srv = H.Server(["--incremental_sync"])
            mon = RangeMonitor(res, ws, lambda msg, rg, jp: {"files": files, "request": msg, "range": rg, "path": jp})
            srv.monitors.append(mon)
            srv.initialize(ws.root)
            for rel in files:
                srv.did_open(ws.uri(rel))
            pos = []
            for ln, col, name in targets:
                pos += [(ln, col), (ln, col + len(name) // 2), (ln, col + len(name))]
            sweep(res, srv, ws, "tbl.f90", pos, {"files": files})
            if pre:
                pos2 = []
                for k, l in enumerate(pre):
                    c = l.index("only:") + 6
                    pos2 += [(k + 1, c), (k + 1, c + 1), (k + 1, l.index("use ") + 5)]
                sweep(res, srv, ws, "tbl2.f90", pos2, {"files": files})
            res.count("table_names_swept", len(chunk))
            res.kind("doc:table")
            res.sample({"class": "table-sweep", "names": [n for _, n in chunk[:6]], "forms": ["y = NAME(x)", "call NAME(x)", "NAME", "y = x%NAME"]}, limit=1)
        return res

    if i >= n_table_cases + len(samples) and i % 5 == 0:
        return relink_case(ctx, i, rng, res)
    if i >= n_table_cases + len(samples) and i % 5 == 1:
        return generated_case(ctx, i, rng, res)
    if i >= n_table_cases + len(samples) and i % 5 == 2:
        return edit_query_case(ctx, i, rng, res)
    # documents inside the sample workspace
    files = dict(sample_workspace_files())
    files.pop("", None)
    j = i - n_table_cases
    kind = "sample"
    if j < len(samples):
        rel, text = samples[j]
    else:
        rel, text = rng.choice(samples)
        r = rng.random()
        text = text.replace("\r\n", "\n")
        if r < 0.5:
            kind = "mutation"
            for _ in range(rng.randint(1, 4)):
                text = G.mutate(rng, text)
        elif r < 0.65:
            kind = "no-trailing-newline"
            ls = text.split("\n")
            text = "\n".join(ls[:rng.randint(1, len(ls))]).rstrip("\n")
        elif r < 0.7:
            kind = "empty"
            text = ""
        elif r < 0.85:
            kind = "soup"
            text = G.token_soup(rng, rng.randint(20, 120))
        else:
            kind = "char-prefix"
            text = text[:rng.randint(0, len(text))]
        rel = os.path.join(os.path.dirname(rel), "zz_" + os.path.basename(rel))
        files[rel] = text
    if isinstance(text, bytes):
        return res
    with H.Workspace(files) as ws:
        srv = H.Server(["--incremental_sync"] + (["--enable_code_actions"] if rng.random() < 0.8 else []), nthreads=4)
        docinfo = {"doc": rel, "kind": kind, "text": text if kind != "sample" else "<sample>"}
        mon = RangeMonitor(res, ws, lambda msg, rg, jp: dict(docinfo, request=msg, range=rg, path=jp))
        srv.monitors.append(mon)
        ctx.mark(docinfo)
        srv.initialize(ws.root)
        uri = ws.uri(rel)
        srv.did_open(uri)
        lines = srv.lines_of(ws.path(rel))
        if lines is None:
            res.inconclusive.append(f"document {rel} not loaded")
            return res
        res.kind("doc:" + kind)
        pos = positions_for(lines, rng, 60 if quick else 600)
        sweep(res, srv, ws, rel, pos, docinfo)
        # whole-session payloads: outline, workspace symbols, diagnostics of every file (range monitor rides along)
        srv.request("textDocument/documentSymbol", {"textDocument": {"uri": uri}})
        for q in ("", "a", "t"):
            srv.request("workspace/symbol", {"query": q})
        if j % 8 == 0:
            for other in list(files)[:: max(1, len(files) // 25)]:
                srv.did_open(ws.uri(other))
        srv.diagnostics(uri)
        if j % 16 == 3:
            res.sample({"class": kind, "doc": rel, "positions": pos[:5], "methods": [m.split("/")[-1] for m in METHODS]}, limit=1)
    return res


def relink_case(ctx, i, rng, res):
    """consumers of a provider module are swept after the provider was rewritten (re-saved, edited in a buffer or deleted): their untouched
    syntax trees are re-linked against objects of another shape (fewer dummies, moved passed-object dummy, entities of another kind)"""
    quick = ctx.tier == "quick"
    files, dep, variants = RL.gen(rng, nvariants=2 if quick else 4)
    consumers = [f for f in files if f != dep]
    with H.Workspace(files) as ws:
        srv = H.Server(["--incremental_sync"] + (["--enable_code_actions"] if rng.random() < 0.8 else []), nthreads=rng.choice([1, 4]))
        docinfo = {"kind": "relink", "files": dict(files), "history": []}
        mon = RangeMonitor(res, ws, lambda msg, rg, jp: dict(docinfo, history=list(docinfo["history"]), request=msg, range=rg, path=jp))
        srv.monitors.append(mon)
        ctx.mark({"kind": "relink"})
        srv.initialize(ws.root)
        for f in consumers:
            if rng.random() < 0.7:
                srv.did_open(ws.uri(f))
                docinfo["history"].append(["open", f])
        if rng.random() < 0.7:
            # populate link objects and per-object caches with the first version
            for f in consumers:
                sweep(res, srv, ws, f, positions_for(files[f].split("\n"), rng, 12), dict(docinfo, doc=f))
        res.kind("doc:relink")
        opened = False
        for v in variants:
            how = rng.choice(["save", "save", "change", "delete"])
            uri = ws.uri(dep)
            if how == "save" or (how == "delete" and not os.path.exists(ws.path(dep))):
                if opened:
                    # an open document is saved with the content of its buffer
                    srv.did_change(uri, [{"text": v}])
                    docinfo["history"].append(["change", dep, v])
                ws.write(dep, v)
                srv.did_save(uri)
                mon.dirty.discard(uri)
                how = "save"
            elif how == "change":
                if not opened:
                    srv.did_open(uri)
                    opened = True
                srv.did_change(uri, [{"text": v}])
                mon.dirty.add(uri)
            else:
                os.remove(ws.path(dep))
                srv.did_close(uri)
                mon.dirty.discard(uri)
                opened = False
            docinfo["history"].append([how, dep, v if how != "delete" else None])
            res.kind("relink:" + how)
            for f in consumers:
                lines = srv.lines_of(ws.path(f)) or files[f].split("\n")
                sweep(res, srv, ws, f, positions_for(lines, rng, 40 if quick else 400), dict(docinfo, doc=f, history=list(docinfo["history"])))
            for q in ("", "a"):
                srv.request("workspace/symbol", {"query": q})
            for f in consumers:
                srv.diagnostics(ws.uri(f))
        if i % 50 == 0:
            res.sample({"class": "relink", "history": [h[:2] for h in docinfo["history"]], "variant_head": variants[0][:300]}, limit=1)
    return res


KIND_MISMATCH = """module kinds
  implicit none
  type :: kt
    integer :: kc
  contains
    procedure :: kb => ksub
  end type kt
  integer, target :: kvar
  integer, pointer :: kp_sub => ksub
  integer, pointer :: kp_type => kt
  procedure(kvar), pointer :: kpp_var => kvar
  procedure(kt), pointer :: kpp_type => null()
  type(ksub) :: kobj_sub
  type(kvar) :: kobj_var
  interface kgen
    module procedure kvar, kt, ksub
  end interface kgen
contains
  subroutine ksub(self)
    class(kt) :: self
    associate (ka_sub => ksub, ka_type => kt, ka_mod => kinds, ka_gen => kgen, ka_bind => self%kb)
      ka_sub = 1
      ka_type = ka_mod + ka_gen
      kp_sub = kp_type + ka_bind
      call kvar()
      call kt%kc()
      kobj_sub%kc = kobj_var%kc + kpp_var%kc
    end associate
    select type (ks => ksub)
    type is (kvar)
      ks = 1
    end select
  end subroutine ksub
end module kinds
"""


def edit_query_case(ctx, i, rng, res):
    """unsaved in-line edits of an open document interleaved with positional requests: every range answered must address the buffer as it is
    now (caches keyed on the saved state, columns taken from an earlier version of a line)"""
    quick = ctx.tier == "quick"
    if rng.random() < 0.5:
        w = MD.gen_workspace(rng, style=None)
        files = dict(w.files)
        rel = rng.choice(sorted(files))
    else:
        files = dict(sample_workspace_files())
        files.pop("", None)
        rel = rng.choice(sorted(f for f, t in files.items() if isinstance(t, str) and f.endswith((".f90", ".F90")) and len(t) < 8000))
    with H.Workspace(files) as ws:
        srv = H.Server(["--incremental_sync"] + (["--enable_code_actions"] if rng.random() < 0.5 else []), nthreads=2)
        docinfo = {"kind": "edit-query", "doc": rel, "files": {rel: files[rel]}, "edits": []}
        mon = RangeMonitor(res, ws, lambda msg, rg, jp: dict(docinfo, edits=list(docinfo["edits"]), request=msg, range=rg, path=jp))
        srv.monitors.append(mon)
        ctx.mark({"kind": "edit-query", "doc": rel})
        srv.initialize(ws.root)
        uri, path = ws.uri(rel), ws.path(rel)
        srv.did_open(uri)
        cur = srv.lines_of(path)
        if cur is None:
            return res
        cur = list(cur)
        res.kind("doc:edit-query")
        for step in range(6 if quick else 20):
            # a small edit inside one line: indent / un-indent, insert or delete a few characters, rename a word
            cand = [n for n, l in enumerate(cur) if IDENT.search(l)]
            if not cand:
                break
            ln = rng.choice(cand)
            L = cur[ln]
            op = rng.randrange(5)
            if op == 0:
                a, b, t = 0, 0, " " * rng.randint(1, 3)
            elif op == 1 and L[:1] == " ":
                a, b, t = 0, min(len(L) - len(L.lstrip()), rng.randint(1, 2)), ""
            elif op == 2:
                m_ = rng.choice(list(IDENT.finditer(L)))
                a, b, t = m_.start(), m_.end(), m_.group() + rng.choice(["x", "_1", ""])[:rng.randint(0, 2)] if rng.random() < 0.5 else m_.group()[:-1]
            elif op == 3:
                a = b = rng.randint(0, len(L))
                t = rng.choice([" ", "  ", "x", "(", ")", ","])
            else:
                a = rng.randint(0, len(L))
                b = min(len(L), a + rng.randint(1, 3))
                t = ""
            ch = {"range": {"start": {"line": ln, "character": a}, "end": {"line": ln, "character": b}}, "text": t}
            cur[ln] = L[:a] + t + L[b:]
            docinfo["edits"].append(ch)
            srv.did_change(uri, [ch])
            if srv.lines_of(path) != cur:
                break
            # requests at identifiers of the edited line and of a few other lines
            pos = []
            for l2 in [ln] + rng.sample(cand, min(len(cand), 3)):
                for m_ in IDENT.finditer(cur[l2]):
                    pos.append((l2, m_.start()))
                    pos.append((l2, m_.end()))
            if len(pos) > (10 if quick else 40):
                pos = rng.sample(pos, 10 if quick else 40)
            sweep(res, srv, ws, rel, pos, dict(docinfo, edits=list(docinfo["edits"])))
    return res


def generated_case(ctx, i, rng, res):
    """a generated multi-file program (vf.model), every file swept"""
    quick = ctx.tier == "quick"
    w = MD.gen_workspace(rng, style=MD.Style(rng) if rng.random() < 0.5 else None, tight=rng.random() < 0.3)
    files = dict(w.files)
    if rng.random() < 0.12:
        # links whose target is an entity of another kind than the linking statement expects
        files = {"kinds.f90": KIND_MISMATCH}
    elif rng.random() < 0.25:
        # submodule + INCLUDEd fragments (short files included deep inside longer ones)
        from vf import hostassoc as HA
        files = HA.gen(rng)[0]
        # a diagnosed statement in every including procedure, on a line the short fragments do not have
        for f_ in list(files):
            if not f_.endswith("_inc.f90") and "include '" in files[f_]:
                ls_ = files[f_].split("\n")
                k_ = max(n for n, l in enumerate(ls_) if "include '" in l)
                ls_.insert(k_ + 1, "    integer, intent(in) :: zz_not_an_argument")
                files[f_] = "\n".join(ls_)
    elif rng.random() < 0.35:
        # fixed-form rendering of the same program (continuation marks in column 6, labels, comment flags)
        from vf import layout as LY
        fx = {}
        for f, t in files.items():
            lay = LY.to_fixed(LY.lex(t), rng, labelled_do=True, conservative=rng.random() < 0.7)
            if lay is None:
                fx = None
                break
            fx[f[:-4] + ".f"] = lay.text("\n")
        if fx:
            files = fx
            res.kind("doc:generated-fixed-form")
    if rng.random() < 0.4:
        f = rng.choice(sorted(files))
        for _ in range(rng.randint(1, 3)):
            files[f] = G.mutate(rng, files[f])
    with H.Workspace(files) as ws:
        srv = H.Server(["--incremental_sync"] + (["--enable_code_actions"] if rng.random() < 0.8 else []), nthreads=2)
        docinfo = {"kind": "generated", "files": files}
        mon = RangeMonitor(res, ws, lambda msg, rg, jp: dict(docinfo, request=msg, range=rg, path=jp))
        srv.monitors.append(mon)
        ctx.mark({"kind": "generated"})
        srv.initialize(ws.root)
        res.kind("doc:generated")
        for f in sorted(files):
            srv.did_open(ws.uri(f))
            lines = srv.lines_of(ws.path(f))
            if lines is None:
                continue
            sweep(res, srv, ws, f, positions_for(lines, rng, 25 if quick else 300), dict(docinfo, doc=f))
            srv.request("textDocument/documentSymbol", {"textDocument": {"uri": ws.uri(f)}})
            srv.diagnostics(ws.uri(f))
    return res


def on_stuck(i, why, tail, mark):
    return {"key": "hang:positional-request", "what": f"case {i} did not terminate ({why}); {tail[-500:]}", "witness": mark, "case": i}


def replay(ctx, w):
    res = Result()
    files = w.get("files")
    if files is None:
        files = dict(sample_workspace_files())
        if w.get("text") not in (None, "<sample>"):
            files[w["doc"]] = w["text"]
    with H.Workspace(files) as ws:
        srv = H.Server(["--incremental_sync", "--enable_code_actions"], nthreads=4)
        srv.monitors.append(RangeMonitor(res, ws, lambda msg, rg, jp: {"request": msg, "range": rg}))
        srv.initialize(ws.root)
        for h in w.get("history") or []:
            u = ws.uri(h[1])
            if h[0] == "open":
                srv.did_open(u)
            elif h[0] == "save":
                ws.write(h[1], h[2])
                srv.did_save(u)
                srv.monitors[0].dirty.discard(u)
            elif h[0] == "change":
                srv.did_open(u)
                srv.did_change(u, [{"text": h[2]}])
                srv.monitors[0].dirty.add(u)
            elif h[0] == "delete":
                if os.path.exists(ws.path(h[1])):
                    os.remove(ws.path(h[1]))
                srv.did_close(u)
        if w.get("edits"):
            srv.did_open(ws.uri(w["doc"]))
            for ch in w["edits"]:
                srv.did_change(ws.uri(w["doc"]), [ch])
        p = json.loads(json.dumps(w.get("params") or (w.get("request") or {}).get("params")))
        rel = w.get("doc") or "tbl.f90"
        # the uri of the original scratch directory is gone: re-root it
        old = p["textDocument"]["uri"]
        base = os.path.basename(old)
        for f in files:
            if os.path.basename(f) == base:
                rel = f
        p["textDocument"]["uri"] = ws.uri(rel)
        srv.did_open(ws.uri(rel))
        method = w.get("method") or (w.get("request") or {}).get("method")
        r = srv.request(method, p)
        if r[0] == "err":
            res.violation(f"{method.split('/')[-1]}:{exc_key(r)}", f"{method} {p} -> error {r[2]} {r[3]}", w)
        elif M.shape_ok(method, r[2]):
            res.violation(f"{method.split('/')[-1]}:shape", f"{method} -> {M.shape_ok(method, r[2])}", w)
    return res
