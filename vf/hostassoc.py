"""Workspaces in which entities of a module are reached by *host association from other files* (C06 `host-assoc` class):
a submodule in a second file and an INCLUDEd fragment in a third use the parent module's variables and procedures, which
are PUBLIC, default, or PRIVATE (attribute or statement).  Every generated identifier is unique in the workspace, so the
oracle is the token scan: the occurrences of an entity are exactly the occurrences of its name outside comments."""
from __future__ import annotations

import re


def gen(rng):
    n = rng.randint(2, 4)
    vis_attr = {}
    names = [f"hv{k}_{rng.randrange(1000)}" for k in range(n)]
    procs = [f"hp{k}_{rng.randrange(1000)}" for k in range(2)]
    decl = []
    stmts = []
    default_private = rng.random() < 0.3
    for nm in names:
        v = rng.choice(["private-attr", "private-stmt", "public-attr", "none"])
        vis_attr[nm] = v
        if v == "private-attr":
            decl.append(f"  integer, private :: {nm}")
        elif v == "public-attr":
            decl.append(f"  integer, public :: {nm}")
        else:
            decl.append(f"  integer :: {nm}")
            if v == "private-stmt":
                stmts.append(f"  private :: {nm}")
    for pn in procs:
        v = rng.choice(["private-stmt", "none", "public-stmt"])
        vis_attr[pn] = v
        if v != "none":
            stmts.append(f"  {v.split('-')[0]} :: {pn}")
    use_inc = rng.random() < 0.6
    fragdecl = f"hfd{rng.randrange(1000)}"  # declared in a fragment that two scoping units of two files INCLUDE
    mod = ["module hostm", "  implicit none"] + (["  private"] if default_private else []) + decl + stmts + [
        "  interface",
        "    module subroutine sm_one(a)",
        "      integer, intent(inout) :: a",
        "    end subroutine sm_one",
        "    module function sm_two(b) result(r)",
        "      integer, intent(in) :: b",
        "      integer :: r",
        "    end function sm_two",
        "  end interface",
        "  public :: sm_one, sm_two",
        "contains"]
    for k, pn in enumerate(procs):
        mod += [f"  subroutine {pn}(x)", "    integer, intent(inout) :: x"]
        if use_inc and k == 0:
            mod.append("    include 'hostdecl_inc.f90'")
            mod.append("    include 'hostfrag_inc.f90'")
            mod.append(f"    {fragdecl} = x")
        mod += [f"    x = x + {names[k % n]}", f"    {names[(k + 1) % n]} = x", f"  end subroutine {pn}"]
    mod.append("end module hostm")
    sub = ["submodule (hostm) hosts", "  implicit none", "  integer :: sub_local", "contains",
           "  module subroutine sm_one(a)", "    integer, intent(inout) :: a"]
    for nm in names:
        sub.append(f"    a = a + {nm}")
    sub += [f"    call {procs[0]}(a)", f"    {names[0]} = {names[-1]} + sub_local", "  end subroutine sm_one",
            "  module function sm_two(b) result(r)", "    integer, intent(in) :: b", "    integer :: r",
            f"    r = b + {names[0]}", f"    call {procs[1]}(r)", "  end function sm_two", "end submodule hosts"]
    files = {"hm/hostm.f90": "\n".join(mod) + "\n", "hs/hosts.f90": "\n".join(sub) + "\n"}
    if use_inc:
        files["hm/hostfrag_inc.f90"] = f"    {names[0]} = {names[0]} + 1\n    x = {names[-1]}\n"
        files["hm/hostdecl_inc.f90"] = f"    integer :: {fragdecl}\n"
        files["hm/hostother.f90"] = ("module hostother\n  implicit none\ncontains\n  subroutine other_user(z)\n    integer, intent(inout) :: z\n    include 'hostdecl_inc.f90'\n"
                                     f"    {fragdecl} = z\n    z = {fragdecl} + 1\n  end subroutine other_user\nend module hostother\n")
        vis_attr[fragdecl] = "fragment"
    files["hostuser.f90"] = "program hostuser\n  use hostm, only: sm_one, sm_two\n  implicit none\n  integer :: q\n  q = 1\n  call sm_one(q)\n  q = sm_two(q)\nend program hostuser\n"
    return files, names + procs + ([fragdecl] if use_inc else []), vis_attr


def declaration(files, name):
    """(file, line, col, end) of the declaring occurrence: the `::` line of a variable or the SUBROUTINE header of a procedure"""
    for f in sorted(files, key=lambda x: (not x.endswith("_inc.f90"), x)):
        for ln, line in enumerate(files[f].split("\n")):
            m = re.search(r"(?<![\w$])" + re.escape(name) + r"(?![\w$])", line.split("!")[0], re.I)
            if m and ("::" in line[:m.start()] or re.match(r"\s*subroutine\s", line, re.I)) and not re.match(r"\s*(private|public)\b", line, re.I):
                return (f, ln, m.start(), m.end())
    return None


def occurrences(files, name):
    out = set()
    for f, t in files.items():
        for ln, line in enumerate(t.split("\n")):
            code = line.split("!")[0]
            for m in re.finditer(r"(?<![\w$])" + re.escape(name) + r"(?![\w$])", code, re.I):
                out.add((f, ln, m.start(), m.end()))
    return out
