"""The query battery used by the differential checks (C10, C15): everything a client can observe about an index."""
from __future__ import annotations

import os
import re

from vf import layout as LY

IDENT = re.compile(r"[A-Za-z_][\w$]*")


def rel(uri_or_path, root):
    p = uri_or_path
    if p.startswith("file://"):
        from urllib.parse import unquote
        p = unquote(p[7:])
    p = os.path.realpath(p) if os.path.isabs(p) else p
    if p.startswith(root + os.sep):
        return "<ROOT>/" + os.path.relpath(p, root)
    return p.replace(root, "<ROOT>")


def norm(x, root):
    """URIs/paths -> root-relative; recursively"""
    if isinstance(x, dict):
        return {k: (rel(v, root) if k == "uri" and isinstance(v, str) else norm(v, root)) for k, v in x.items()}
    if isinstance(x, list):
        return [norm(v, root) for v in x]
    if isinstance(x, str) and root in x:
        return x.replace(root, "<ROOT>")
    return x


def freeze(x):
    if isinstance(x, dict):
        return tuple(sorted((k, freeze(v)) for k, v in x.items()))
    if isinstance(x, list):
        return tuple(freeze(v) for v in x)
    return x


def positions(files, rng, per_file=40):
    """identifier positions (file, line, col) sampled deterministically from the given rng"""
    out = []
    for f in sorted(files):
        t = files[f]
        if not isinstance(t, str) or not re.search(r"\.(f90|F90|f|F|for|f08)$", f):
            continue
        if any(re.search(r"include\s*['\"]" + re.escape(os.path.basename(f)), t2, re.I) for t2 in files.values() if isinstance(t2, str)):
            continue  # positions inside a fragment that other files INCLUDE have no single enclosing scope
        ps = []
        for ln, line in enumerate(t.split("\n")):
            code = line.split("!")[0]
            if code.lstrip().startswith("#"):
                continue
            for m in IDENT.finditer(code):
                ps.append((f, ln, m.start()))
        if len(ps) > per_file:
            ps = rng.sample(ps, per_file)
        # member access: the position right after `%` (completion without prefix lists the whole type layout)
        mem = [(f, ln, m.end(), "member") for ln, line in enumerate(t.split("\n")) for m in re.finditer(r"%", line.split("!")[0])]
        if len(mem) > per_file // 2:
            mem = rng.sample(mem, per_file // 2)
        out += sorted(ps) + sorted(mem)
    return out


def run(client, root, files, pos):
    """-> dict of normalised answers.  `client` offers request(method, params) -> ('resp'|'err', payload) and diagnostics(uri) -> list|None,
    uri(relpath)."""
    out = {}
    for f in sorted(files):
        if not re.search(r"\.(f90|F90|f|F|for|f08)$", f):
            continue
        k, r = client.request("textDocument/documentSymbol", {"textDocument": {"uri": client.uri(f)}})
        out[("outline", f)] = freeze(sorted(freeze(norm(s, root)) for s in r)) if k == "resp" and isinstance(r, list) else (k, str(r)[:80])
        d = client.diagnostics(client.uri(f))
        # which of several equally named candidates is suggested as "possible object" follows insertion order: not compared
        d = [{k_: v_ for k_, v_ in x.items() if k_ != "relatedInformation"} for x in d] if d is not None else None
        out[("diagnostics", f)] = freeze(sorted(freeze(norm(x, root)) for x in d)) if d is not None else None
    k, r = client.request("workspace/symbol", {"query": ""})
    out[("wsymbol", "")] = freeze(sorted(freeze(norm(s, root)) for s in r)) if k == "resp" and isinstance(r, list) else (k, str(r)[:80])
    for entry in pos:
        f, ln, col = entry[:3]
        if len(entry) > 3:
            k, r = client.request("textDocument/completion", {"textDocument": {"uri": client.uri(f)}, "position": {"line": ln, "character": col}})
            if k == "resp":
                items = r if isinstance(r, list) else (r or {}).get("items", []) if isinstance(r, dict) else []
                out[("members", f, ln, col)] = freeze(sorted((str(i.get("label")), str(i.get("kind"))) for i in items))
            else:
                out[("members", f, ln, col)] = ("ERR", str(r)[:60])
            continue
        p = {"textDocument": {"uri": client.uri(f)}, "position": {"line": ln, "character": col}}
        k, r = client.request("textDocument/definition", p)
        out[("definition", f, ln, col)] = freeze(norm(r, root)) if k == "resp" else ("ERR", str(r)[:60])
        k, r = client.request("textDocument/hover", p)
        out[("hover", f, ln, col)] = freeze(norm(r, root)) if k == "resp" else ("ERR", str(r)[:60])
        k, r = client.request("textDocument/completion", {**p, "position": {"line": ln, "character": col + 1}})
        if k == "resp":
            items = r if isinstance(r, list) else (r or {}).get("items", []) if isinstance(r, dict) else []
            out[("completion", f, ln, col)] = freeze(sorted((str(i.get("label")), str(i.get("kind")), str(i.get("detail"))) for i in items if not str(i.get("label", "")).isupper()))
        else:
            out[("completion", f, ln, col)] = ("ERR", str(r)[:60])
        k, r = client.request("textDocument/references", {**p, "context": {"includeDeclaration": True}})
        out[("references", f, ln, col)] = freeze(sorted(freeze(norm(x, root)) for x in r)) if k == "resp" and isinstance(r, list) else (None if k == "resp" else ("ERR", str(r)[:60]))
        k, r = client.request("textDocument/signatureHelp", {**p, "position": {"line": ln, "character": col + 1}})
        out[("signature", f, ln, col)] = freeze(norm(r, root)) if k == "resp" else ("ERR", str(r)[:60])
    return out


class InprocClient:
    def __init__(self, srv, ws):
        self.srv, self.ws = srv, ws

    def uri(self, f):
        return self.ws.uri(f)

    def request(self, method, params):
        e = self.srv.request(method, params)
        if e[0] == "resp":
            return "resp", e[2]
        return "err", e[3] if len(e) > 3 else None

    def diagnostics(self, uri):
        d, ev = self.srv.diagnostics(uri)
        return d


class SubClient:
    def __init__(self, sub, ws):
        self.sub, self.ws = sub, ws
        self.n = 100

    def uri(self, f):
        return self.ws.uri(f)

    def request(self, method, params):
        self.n += 1
        r = self.sub.request(self.n, method, params, timeout=30)
        if r is None:
            return "err", "no response"
        if "result" in r:
            return "resp", r["result"]
        return "err", (r.get("error") or {}).get("message")

    def diagnostics(self, uri):
        n0 = len(self.sub.msgs)
        self.sub.notify("textDocument/didSave", {"textDocument": {"uri": uri}})
        # a following request flushes the pipe: everything published before its response belongs to the save
        self.request("workspace/symbol", {"query": "zz_sync_marker"})
        out = None
        for m in self.sub.msgs[n0:]:
            if m.get("method") == "textDocument/publishDiagnostics" and m["params"].get("uri") == uri:
                out = m["params"]["diagnostics"]
        return out


PP_FILES = {
    "pp/ppmod.f90": "#define PP_ON 1\nmodule ppmod\n  implicit none\n#ifdef PP_ON\n  integer :: pp_on_var\n#else\n  integer :: pp_off_var\n#endif\ncontains\n#if defined(PP_ON) && PP_ON == 1\n  subroutine pp_sub_on()\n    pp_on_var = 1\n  end subroutine pp_sub_on\n#else\n  subroutine pp_sub_off()\n  end subroutine pp_sub_off\n#endif\nend module ppmod\n",
}

EXTRA_FILES = {
    "incs/inc_decl.f90": "      integer :: inc_var_a\n      real :: inc_var_b\n",
    "incs/incuser1.f90": "module iu1\n  implicit none\n  include 'inc_decl.f90'\ncontains\n  subroutine iu1_s()\n    inc_var_a = 1\n  end subroutine iu1_s\nend module iu1\n",
    "incs/inc_type.f90": "      type :: inc_type_b\n        integer :: inc_comp_b\n      contains\n        procedure :: inc_bind_b => iu3_impl\n      end type inc_type_b\n",
    "incs/incuser3.f90": "module iu3\n  implicit none\n  include 'inc_type.f90'\ncontains\n  subroutine iu3_impl(self)\n    class(inc_type_b) :: self\n    self%inc_comp_b = 3\n  end subroutine iu3_impl\nend module iu3\n",
    "incs/incext.f90": "module incext\n  use iu3\n  implicit none\n  type, extends(inc_type_b) :: ext_b\n    integer :: own_c\n  end type ext_b\n  type(ext_b) :: ev\ncontains\n  subroutine ie_s()\n    ev%inc_comp_b = ev%own_c\n    call ev%inc_bind_b()\n    associate (ie_ax => ev%inc_comp_b, ie_ay => ev%own_c)\n      ie_ax = ie_ay\n    end associate\n  end subroutine ie_s\nend module incext\n",
    "incs/aaa_incuse.f90": "module aaa_incuse\n  use incext\n  implicit none\ncontains\n  subroutine aiu_s()\n    type(ext_b) :: aiu_o\n    associate (aiu_x => aiu_o%inc_comp_b, aiu_y => ev%own_c)\n      aiu_x = aiu_y\n    end associate\n  end subroutine aiu_s\nend module aaa_incuse\n",
    "incs/incuser2.f90": "subroutine iu2()\n  implicit none\n  include 'inc_decl.f90'\n  inc_var_b = 2.0\nend subroutine iu2\n",
    "smods/smodp.f90": "module smodp\n  implicit none\n  interface\n    module subroutine sm_work(a)\n      integer, intent(inout) :: a\n    end subroutine sm_work\n    module function sm_fun(b) result(r)\n      integer, intent(in) :: b\n      integer :: r\n    end function sm_fun\n    module subroutine sm_short(c, d)\n      real, intent(in) :: c\n      real, intent(out) :: d\n    end subroutine sm_short\n  end interface\n  integer :: sm_state\nend module smodp\n",
    "smods/smodc.f90": "submodule (smodp) smodc\n  implicit none\n  integer :: sm_local\ncontains\n  module subroutine sm_work(a)\n    integer, intent(inout) :: a\n    a = a + sm_state + sm_local\n  end subroutine sm_work\n  module function sm_fun(b) result(r)\n    integer, intent(in) :: b\n    integer :: r\n    r = b + sm_state\n  end function sm_fun\n  module procedure sm_short\n    d = c * 2.0 + sm_state\n  end procedure sm_short\nend submodule smodc\n",
    "ppa/pp_a.F90": "#include \"hdr_a.h\"\nmodule pp_a\n  implicit none\n#ifdef ONLY_PP_A_MACRO\n  integer :: pp_a_hdr_seen\n#else\n  integer :: pp_a_hdr_missing\n#endif\nend module pp_a\n",
    "ppb/pp_b.F90": "module pp_b\n  implicit none\n  integer :: pp_b_var\nend module pp_b\n",
    "ppb/hdr_a.h": "#define ONLY_PP_A_MACRO 1\n",
    "gens/gen_prov.f90": "module gen_prov\n  implicit none\ncontains\n  subroutine put_int(pia, piw)\n    integer, intent(in) :: pia\n    integer, intent(in) :: piw\n  end subroutine put_int\n  subroutine put_real(pra)\n    real, intent(in) :: pra\n  end subroutine put_real\n  subroutine do_work(dwn, dwself)\n    integer, intent(in) :: dwn\n    class(*), intent(in) :: dwself\n  end subroutine do_work\nend module gen_prov\n",
    "gens/gen_user.f90": "module gen_user\n  use gen_prov\n  implicit none\n  interface put\n    procedure put_int, put_real\n  end interface put\n  type :: gu_t\n    integer :: gu_c\n  contains\n    procedure, nopass :: gput_i => put_int\n    procedure, nopass :: gput_r => put_real\n    generic :: gput => gput_i, gput_r\n    procedure, pass(dwself) :: gwork => do_work\n  end type gu_t\ncontains\n  subroutine gu_run(o)\n    type(gu_t) :: o\n    call put(1, 2)\n    call put(1.0)\n    call o%gput(3, 4)\n    call o%gwork(5)\n  end subroutine gu_run\nend module gen_user\n",
    "ppg/guarded.F90": "#ifndef PPG_GUARD\n#define PPG_GUARD\n#define PPG_LEN 3\nmodule ppg\n  implicit none\n  integer :: ppg_arr(PPG_LEN)\n  integer :: ppg_var\ncontains\n  subroutine ppg_sub(pa)\n    integer, intent(in) :: pa\n    ppg_var = pa + ppg_arr(1)\n  end subroutine ppg_sub\nend module ppg\n#endif\n",
    "smods/smuse.f90": "program smuse\n  use smodp\n  use iu1, only: inc_var_a\n  implicit none\n  integer :: q\n  q = sm_fun(inc_var_a)\n  call sm_work(q)\n  call iu2()\nend program smuse\n",
}
