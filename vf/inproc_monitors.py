"""Monitors / schedule perturbations installed inside a server process (sub-process or forked child)."""
import hashlib
import os
import random
import sys
import time

_audit_fd = None
_armed = [False]

INTERESTING = ("exec", "compile", "os.system", "os.exec", "os.posix_spawn", "os.spawn", "subprocess.Popen", "pty.spawn", "open",
               "os.remove", "os.rename", "os.mkdir", "os.rmdir", "os.truncate", "os.chmod", "os.chown", "os.link", "os.symlink",
               "shutil.", "tempfile.", "socket.connect", "socket.bind", "urllib.Request", "os.putenv", "os.unsetenv", "ctypes.dlopen",
               "os.fork", "os.forkpty", "os.kill", "os.utime", "os.setxattr", "os.removexattr", "os.replace", "os.unlink", "shutil.rmtree",
               "os.mkfifo", "os.mknod", "os.write_to")


def _caller():
    """innermost fortls function on the stack (who asked for this?)"""
    try:
        f = sys._getframe(2)
        while f is not None:
            fn = f.f_code.co_filename
            if "/fortls/" in fn and "/vf/" not in fn:
                return os.path.basename(fn) + ":" + f.f_code.co_name
            f = f.f_back
    except Exception:
        pass
    return "-"


def _audit(event, args):
    if not _armed[0] or _audit_fd is None:
        return
    if not event.startswith(INTERESTING):
        return
    try:
        if event == "exec":
            co = args[0]
            rec = f"exec\t{getattr(co, 'co_filename', '?')}\t{getattr(co, 'co_name', '?')}\t{_caller()}"
        elif event == "compile":
            src, fname = args[0], args[1]
            # traceback formatting parses fortls's own source lines (ast.parse for caret positions): not file content
            f = sys._getframe(1)
            while f is not None:
                if f.f_code.co_filename.endswith(("traceback.py", "linecache.py")):
                    return
                f = f.f_back
            rec = f"compile\t{fname}\t{(repr(src)[:80] if src is not None else '')}\t{_caller()}"
        elif event == "open":
            path, mode, flags = args[0], args[1], args[2]
            rec = f"open\t{path}\t{mode}\t{flags}\t{_caller()}"
        else:
            rec = event + "\t" + "\t".join(repr(a)[:200] for a in args) + "\t" + _caller()
        os.write(_audit_fd, (str(os.getpid()) + "\t" + rec.replace("\n", "\\n") + "\n").encode("utf-8", "replace"))
    except Exception:
        pass


def arm(on=True):
    _armed[0] = on


def install_audit(path):
    global _audit_fd
    _audit_fd = os.open(path, os.O_WRONLY | os.O_CREAT | os.O_APPEND, 0o644)
    sys.addaudithook(_audit)


def install_listdir(seed):
    orig_listdir, orig_walk, orig_scandir = os.listdir, os.walk, os.scandir

    def key(name):
        if isinstance(name, bytes):
            name = name.decode("utf-8", "replace")
        if seed == "sorted":
            return name
        return hashlib.sha256(f"{seed}:{name}".encode()).digest()

    def listdir(path="."):
        return sorted(orig_listdir(path), key=key)

    def walk(top, topdown=True, onerror=None, followlinks=False):
        for dp, dn, fn in orig_walk(top, topdown, onerror, followlinks):
            dn.sort(key=key)
            fn.sort(key=key)
            yield dp, dn, fn

    os.listdir, os.walk = listdir, walk


def install_worker_delay(seed):
    """per-file sleep inside FortranFile.parse: pool workers (forked later) finish in a permuted order"""
    from fortls.parsers.internal.parser import FortranFile

    orig = FortranFile.parse

    def parse(self, *a, **k):
        r = random.Random(hashlib.sha256(f"{seed}:{os.path.basename(self.path or '')}".encode()).digest())
        time.sleep(r.random() * 0.03)
        return orig(self, *a, **k)

    FortranFile.parse = parse


def install(cfg):
    if "listdir_seed" in cfg:
        install_listdir(cfg["listdir_seed"])
    if "worker_delay_seed" in cfg:
        install_worker_delay(cfg["worker_delay_seed"])
    if "audit" in cfg:
        install_audit(cfg["audit"])
        arm(True)
