"""Document texts for the totality properties (C03, C09, C17): prefixes, mutations, token soup, stressors."""
from __future__ import annotations

import re

KEYWORDS = """program module submodule subroutine function interface type class procedure contains end endif enddo
endmodule endsubroutine endfunction endprogram endtype endinterface use only import implicit none integer real complex
logical character double precision dimension allocatable pointer target intent in out inout optional parameter save
public private protected abstract extends deferred pass nopass generic final bind result recursive pure elemental
impure non_intrinsic intrinsic do while forall where elsewhere if then else elseif select case default block associate
enum enumerator critical include call return stop print write read open close allocate deallocate nullify kind len
external volatile contiguous value sequence operator assignment""".split()
PUNCT = list("()(),,::=>%&!'\";*+-/.<>[]") + ["::", "=>", "(/", "/)", "//", "**", "==", ".and.", ".true.", "&\n", "\n", "\n", "\n", ";"]
IDENTS = ["a", "b", "x", "foo", "bar", "t", "m", "n1", "i", "self", "this", "val$", "_u"]
DIRECTIVES = ["#define", "#undef", "#if", "#ifdef", "#ifndef", "#elif", "#else", "#endif", "#include", "defined", "\\", "||", "&&", "!"]
NUMS = ["1", "10", "3.14", "1e3", "0", "100"]


def token_soup(rng, n=None):
    n = n or rng.randint(3, 80)
    out = []
    bol = True
    for _ in range(n):
        r = rng.random()
        if bol and r < 0.12:
            out.append(rng.choice(["c ", "C ", "* ", "! ", "d ", "      ", "     & ", "10 ", "  20 ", "\t"]))
            bol = False
            continue
        if bol and r < 0.22:
            out.append(rng.choice(DIRECTIVES[:9]) + " ")
            bol = False
            continue
        if r < 0.45:
            w = rng.choice(KEYWORDS)
            c = rng.random()
            w = w.upper() if c < 0.3 else (w.capitalize() if c < 0.4 else w)
        elif r < 0.6:
            w = rng.choice(IDENTS)
        elif r < 0.66:
            w = rng.choice(NUMS)
        elif r < 0.72:
            w = rng.choice(DIRECTIVES)
        else:
            w = rng.choice(PUNCT)
        out.append(w)
        bol = w.endswith("\n")
        if not bol and rng.random() < 0.7:
            out.append(" ")
    return "".join(out)


def line_prefixes(text):
    ls = text.split("\n")
    for k in range(len(ls) + 1):
        yield "\n".join(ls[:k])


def mutate(rng, text):
    ls = text.split("\n")
    op = rng.randrange(9)
    if not ls:
        return text
    k = rng.randrange(len(ls))
    if op == 0:
        del ls[k]
    elif op == 1:
        ls.insert(k, ls[k])
    elif op == 2 and len(ls) > 1:
        j = rng.randrange(len(ls))
        ls[k], ls[j] = ls[j], ls[k]
    elif op == 3:
        c = rng.randint(0, len(ls[k]))
        ls[k] = ls[k][:c] + rng.choice("()&!'\";,%=:*\\") + ls[k][c:]
    elif op == 4:
        c = rng.randint(0, len(ls[k]))
        ls[k] = ls[k][:c]
    elif op == 5:
        ls.insert(k, rng.choice(["#define X \\", "#if X", "#ifdef A", "#else", "#endif", "#include \"x.h\"", "#define F(a,b) a+b\\n", "#define E()", "#if (defined A) || defined(B)", "#elif 1",
                                 "#undef X", "#define X(a) a+1", "#define X 2", "#undef F", "#define F 3", "#define A(x,y) x*y", "#undef A", " i = X + F(1,2) + A", " j = X(2) + F + A(1,2)"]))
    elif op == 6:
        c = rng.randint(0, len(ls[k]))
        ls[k] = ls[k][c:]
    elif op == 7:
        a = rng.randrange(len(ls))
        b = min(len(ls), a + rng.randint(1, 6))
        del ls[a:b]
    else:
        ls[k] = ls[k] + " &"
    return "\n".join(ls)


def stressors(rng):
    out = []
    out.append(("long-line", "program p\n  x = " + "+".join(["a"] * 3000) + "\nend program p\n"))
    out.append(("many-continuations", "program p\n  x = 1 &\n" + "".join("    + 1 &\n" for _ in range(300)) + "    + 1\nend program p\n"))
    out.append(("many-semicolons", "program p\n" + ";".join(["i=1"] * 200) + "\nend program p\n"))
    depth = 100
    out.append(("deep-nesting", "program p\n" + "".join("  " * d + "if (a) then\n" for d in range(depth)) + "".join("  " * d + "end if\n" for d in range(depth, 0, -1)) + "end program p\n"))
    out.append(("deep-blocks", "subroutine s\n" + "block\n" * 150 + "end block\n" * 150 + "end subroutine s\n"))
    out.append(("lone-cr", "program p\rinteger :: i\rend program p\r"))
    out.append(("nul-bytes", "program p\n\x00integer :: i\x00\nend program p\n"))
    out.append(("bom", "\ufeffprogram p\nend program p\n"))
    out.append(("non-utf8", b"program p\n  character(len=3) :: s = '\xff\xfe\xe9'\nend program p\n"))
    out.append(("only-amp", "&\n&\n&\n"))
    out.append(("trailing-amp", "program p\n  x = 1 &"))
    out.append(("amp-comment", "program p\n  x = 1 & ! c\n  ! c2\n\n  & + 2\nend program p"))
    out.append(("unterminated-string", "program p\n  s = 'abc\n  t = \"def\nend program p\n"))
    out.append(("paren-bomb", "program p\n  x = " + "(" * 500 + "1" + ")" * 500 + "\nend program p\n"))
    out.append(("if-paren-bomb", "#if " + "(" * 3000 + "1" + ")" * 3000 + "\ninteger :: i\n#endif\n"))
    out.append(("if-power", "#if 9**9**9**9\ninteger :: i\n#endif\n#if 'a'*10**10\n#endif\n"))
    out.append(("if-bigmul", "#define X 99999999999999999999\n#if X*X*X*X*X*X > 1\ninteger :: j\n#endif\n"))
    out.append(("define-cont-eof", "#define X 1 \\"))
    out.append(("define-cont-blank", "#define X 1 \\\n\nprogram p\nend program p\n"))
    out.append(("macro-backslash", "#define P \"C:\\dir\\1\"\n#define F() 42\n#define G(a,b) a\\b\nprogram p\n print *, P, F(), G(1,2)\nend program p\n"))
    out.append(("macro-self", "#define X X\n#define A B\n#define B A\n#if X\n#endif\n#if A\n#endif\nprogram p\n i = X + A\nend program p\n"))
    out.append(("macro-redefine", "#define X 1\nprogram p\n a = X\n#undef X\n#define X(a) a+1\n b = X(2)\n#undef X\n#define X 7\n c = X\n#define F(a) a\n d = F(1)\n#undef F\n#define F 2\n e = F\nend program p\n"))
    out.append(("macro-chain-bomb", "".join(f"#define LVL{i} (LVL{i + 1} + LVL{i + 1} + LVL{i + 1} + LVL{i + 1})\n" for i in range(16)) + "#define LVL16 1\n#if LVL0 > 0\ninteger :: i\n#elif LVL1 == LVL2\n#endif\nprogram p\n i = LVL0\nend program p\n"))
    out.append(("macro-fan-bomb", "#define A0 1\n" + "".join(f"#define A{i} A{i - 1} A{i - 1} A{i - 1}\n" for i in range(1, 14)) + "#if defined(A13) && A13\n#endif\nprogram p\n i = A13\nend program p\n"))
    out.append(("macro-regex", "#define R(a) [a]*+?{a}^$|.\nprogram p\n i = R(1)\nend program p\n"))
    out.append(("self-include", "#include \"@SELF@\"\n#include \"@SELF@\"\nsubroutine si()\n  include '@SELF@'\nend subroutine si\n"))
    out.append(("procedure-outside", "procedure(foo) :: bar\nprocedure :: baz\n"))
    out.append(("end-only", "end\nend\nend subroutine\nend module\ncontains\nend type\nend interface\n"))
    out.append(("many-ends", "module m\ncontains\n" + "end\n" * 30))
    out.append(("types", "type t\ntype, extends(t) :: t\nend type\nclass(t) :: x\ntype(t) function f()\n"))
    out.append(("empty", ""))
    out.append(("blank-lines", "\n\n\n   \n\t\n"))
    return out


FIXED_RE = re.compile(r"\.(f|for|ftn|f77)$", re.I)


def ext_for(rng, orig=None):
    if orig and rng.random() < 0.5:
        return orig
    return rng.choice([".f90", ".F90", ".f", ".F", ".f08", ".FOR", ".fpp"])
