"""Document texts for the totality properties (C03, C09, C17): prefixes, mutations, token soup, stressors."""
from __future__ import annotations

import re

KEYWORDS = """program module submodule subroutine function interface type class procedure contains end endif enddo
endmodule endsubroutine endfunction endprogram endtype endinterface use only import implicit none integer real complex
logical character double precision dimension allocatable pointer target intent in out inout optional parameter save
public private protected abstract extends deferred pass nopass generic final bind result recursive pure elemental
impure non_intrinsic intrinsic do while forall where elsewhere if then else elseif select case default block associate
enum enumerator critical include call return stop print write read open close allocate deallocate nullify kind len
external volatile contiguous value sequence operator assignment""".split()
PUNCT = list("()(),,::=>%&!'\";*+-/.<>[]") + ["::", "=>", "(/", "/)", "//", "**", "==", ".and.", ".true.", "&\n", "\n", "\n", "\n", ";"]
IDENTS = ["a", "b", "x", "foo", "bar", "t", "m", "n1", "i", "self", "this", "val$", "_u"]
DIRECTIVES = ["#define", "#undef", "#if", "#ifdef", "#ifndef", "#elif", "#else", "#endif", "#include", "defined", "\\", "||", "&&", "!"]
NUMS = ["1", "10", "3.14", "1e3", "0", "100"]


def token_soup(rng, n=None):
    n = n or rng.randint(3, 80)
    out = []
    bol = True
    for _ in range(n):
        r = rng.random()
        if bol and r < 0.12:
            out.append(rng.choice(["c ", "C ", "* ", "! ", "d ", "      ", "     & ", "10 ", "  20 ", "\t"]))
            bol = False
            continue
        if bol and r < 0.22:
            out.append(rng.choice(DIRECTIVES[:9]) + " ")
            bol = False
            continue
        if r < 0.45:
            w = rng.choice(KEYWORDS)
            c = rng.random()
            w = w.upper() if c < 0.3 else (w.capitalize() if c < 0.4 else w)
        elif r < 0.6:
            w = rng.choice(IDENTS)
        elif r < 0.66:
            w = rng.choice(NUMS)
        elif r < 0.72:
            w = rng.choice(DIRECTIVES)
        else:
            w = rng.choice(PUNCT)
        out.append(w)
        bol = w.endswith("\n")
        if not bol and rng.random() < 0.7:
            out.append(" ")
    return "".join(out)


def line_prefixes(text):
    ls = text.split("\n")
    for k in range(len(ls) + 1):
        yield "\n".join(ls[:k])


def mutate(rng, text):
    ls = text.split("\n")
    op = rng.randrange(9)
    if not ls:
        return text
    k = rng.randrange(len(ls))
    if op == 0:
        del ls[k]
    elif op == 1:
        ls.insert(k, ls[k])
    elif op == 2 and len(ls) > 1:
        j = rng.randrange(len(ls))
        ls[k], ls[j] = ls[j], ls[k]
    elif op == 3:
        c = rng.randint(0, len(ls[k]))
        ls[k] = ls[k][:c] + rng.choice("()&!'\";,%=:*\\") + ls[k][c:]
    elif op == 4:
        c = rng.randint(0, len(ls[k]))
        ls[k] = ls[k][:c]
    elif op == 5:
        ls.insert(k, rng.choice(["#define X \\", "#if X", "#ifdef A", "#else", "#endif", "#include \"x.h\"", "#define F(a,b) a+b\\n", "#define E()", "#if (defined A) || defined(B)", "#elif 1",
                                 "#undef X", "#define X(a) a+1", "#define X 2", "#undef F", "#define F 3", "#define A(x,y) x*y", "#undef A", " i = X + F(1,2) + A", " j = X(2) + F + A(1,2)"]))
    elif op == 6:
        c = rng.randint(0, len(ls[k]))
        ls[k] = ls[k][c:]
    elif op == 7:
        a = rng.randrange(len(ls))
        b = min(len(ls), a + rng.randint(1, 6))
        del ls[a:b]
    else:
        ls[k] = ls[k] + " &"
    return "\n".join(ls)


def stressors(rng):
    out = []
    out.append(("long-line", "program p\n  x = " + "+".join(["a"] * 3000) + "\nend program p\n"))
    out.append(("many-continuations", "program p\n  x = 1 &\n" + "".join("    + 1 &\n" for _ in range(300)) + "    + 1\nend program p\n"))
    out.append(("many-semicolons", "program p\n" + ";".join(["i=1"] * 200) + "\nend program p\n"))
    depth = 100
    out.append(("deep-nesting", "program p\n" + "".join("  " * d + "if (a) then\n" for d in range(depth)) + "".join("  " * d + "end if\n" for d in range(depth, 0, -1)) + "end program p\n"))
    out.append(("deep-blocks", "subroutine s\n" + "block\n" * 150 + "end block\n" * 150 + "end subroutine s\n"))
    out.append(("lone-cr", "program p\rinteger :: i\rend program p\r"))
    out.append(("nul-bytes", "program p\n\x00integer :: i\x00\nend program p\n"))
    out.append(("bom", "\ufeffprogram p\nend program p\n"))
    out.append(("non-utf8", b"program p\n  character(len=3) :: s = '\xff\xfe\xe9'\nend program p\n"))
    out.append(("only-amp", "&\n&\n&\n"))
    out.append(("trailing-amp", "program p\n  x = 1 &"))
    out.append(("amp-comment", "program p\n  x = 1 & ! c\n  ! c2\n\n  & + 2\nend program p"))
    out.append(("unterminated-string", "program p\n  s = 'abc\n  t = \"def\nend program p\n"))
    out.append(("paren-bomb", "program p\n  x = " + "(" * 500 + "1" + ")" * 500 + "\nend program p\n"))
    out.append(("if-paren-bomb", "#if " + "(" * 3000 + "1" + ")" * 3000 + "\ninteger :: i\n#endif\n"))
    out.append(("if-power", "#if 9**9**9**9\ninteger :: i\n#endif\n#if 'a'*10**10\n#endif\n"))
    out.append(("if-bigmul", "#define X 99999999999999999999\n#if X*X*X*X*X*X > 1\ninteger :: j\n#endif\n"))
    out.append(("define-cont-eof", "#define X 1 \\"))
    out.append(("define-cont-blank", "#define X 1 \\\n\nprogram p\nend program p\n"))
    out.append(("macro-backslash", "#define P \"C:\\dir\\1\"\n#define F() 42\n#define G(a,b) a\\b\nprogram p\n print *, P, F(), G(1,2)\nend program p\n"))
    out.append(("macro-self", "#define X X\n#define A B\n#define B A\n#if X\n#endif\n#if A\n#endif\nprogram p\n i = X + A\nend program p\n"))
    out.append(("macro-redefine", "#define X 1\nprogram p\n a = X\n#undef X\n#define X(a) a+1\n b = X(2)\n#undef X\n#define X 7\n c = X\n#define F(a) a\n d = F(1)\n#undef F\n#define F 2\n e = F\nend program p\n"))
    out.append(("macro-chain-bomb", "".join(f"#define LVL{i} (LVL{i + 1} + LVL{i + 1} + LVL{i + 1} + LVL{i + 1})\n" for i in range(16)) + "#define LVL16 1\n#if LVL0 > 0\ninteger :: i\n#elif LVL1 == LVL2\n#endif\nprogram p\n i = LVL0\nend program p\n"))
    out.append(("macro-fan-bomb", "#define A0 1\n" + "".join(f"#define A{i} A{i - 1} A{i - 1} A{i - 1}\n" for i in range(1, 14)) + "#if defined(A13) && A13\n#endif\nprogram p\n i = A13\nend program p\n"))
    g8 = "#define G(a,b,c,d,e,f,g,h) a+h\n#define F(a,1) a\n#define H(g,x) g x\n"
    out.append(("macro-call-commas", g8 + "program p\n  x = G(" + "," * 60 + "\n  y = F(1,2) + H(3,4)\nend program p\n"))
    out.append(("macro-call-parens", g8 + "program p\n  x = G(" + "(a," * 30 + "\n  x = G(" + "a(" * 40 + ")" * 20 + "\nend program p\n"))
    out.append(("macro-call-quotes", g8 + "program p\n  x = G('" + ",'" * 31 + "\n  x = G(\"" + ",\"," * 20 + "\nend program p\n"))
    out.append(("macro-call-many", g8 + "program p\n  x = " + " + ".join(["G(1,2,3,4,5,6,7,8)"] * 40) + " + G(1,2,3\nend program p\n"))
    out.append(("macro-regex", "#define R(a) [a]*+?{a}^$|.\nprogram p\n i = R(1)\nend program p\n"))
    out.append(("self-include", "#include \"@SELF@\"\n#include \"@SELF@\"\nsubroutine si()\n  include '@SELF@'\nend subroutine si\n"))
    out.append(("procedure-outside", "procedure(foo) :: bar\nprocedure :: baz\n"))
    out.append(("end-only", "end\nend\nend subroutine\nend module\ncontains\nend type\nend interface\n"))
    out.append(("many-ends", "module m\ncontains\n" + "end\n" * 30))
    out.append(("types", "type t\ntype, extends(t) :: t\nend type\nclass(t) :: x\ntype(t) function f()\n"))
    out.append(("empty", ""))
    out.append(("blank-lines", "\n\n\n   \n\t\n"))
    return out


FIXED_RE = re.compile(r"\.(f|for|ftn|f77)$", re.I)


def ext_for(rng, orig=None):
    if orig and rng.random() < 0.5:
        return orig
    return rng.choice([".f90", ".F90", ".f", ".F", ".f08", ".FOR", ".fpp"])


# ---------------------------------------------------------------------------------------------
# statement templates x single token mutations: the near-miss statements an editor sends while the user types

WRAP = ("module tm\n  use iso_fortran_env\n  implicit none\n  type :: tt\n    integer :: c\n  contains\n    procedure :: pb => impl\n  end type tt\n  integer :: arr(3)\n@MS@\n"
        "contains\n  subroutine impl(self)\n    class(tt) :: self\n  end subroutine impl\n  subroutine host(a, b)\n    integer :: a, b, y, i\n    type(tt) :: o\n    class(tt), allocatable :: q\n@SP@\n"
        "    y = 1\n@EX@\n  end subroutine host\nend module tm\n@TOP@\n")

TEMPLATES = {
    "MS": ["  integer, parameter :: n = 3", "  real(kind=8), dimension(3), save :: ar2 = [1, 2, 3]", "  character(len=*), parameter :: s = 'a,b'", "  type(tt), pointer :: p => null()",
           "  procedure(impl), pointer :: pp => null()", "  public :: tt, impl", "  private", "  interface gen\n    module procedure impl\n  end interface gen",
           "  interface operator(+)\n    module procedure impl\n  end interface", "  abstract interface\n    subroutine ai(x)\n      import :: tt\n      integer :: x\n    end subroutine ai\n  end interface",
           "  type, extends(tt), abstract :: t2\n    integer, allocatable :: d(:)\n  contains\n    procedure(ai), deferred, pass(self) :: dm\n    generic :: g => pb, dm\n    final :: impl\n  end type t2",
           "  enum, bind(c)\n    enumerator :: e1 = 1, e2\n  end enum", "  use iso_c_binding, only: c_int, ci => c_long", "  external :: ext1", "  double precision :: dp", "  integer :: v1, v2(3), v3 = 4",
           "  common /blk/ v1", "  equivalence (v1, v2)", "  namelist /nl/ v1", "  data v1 /1/", "  include 'inc.f90'", "  integer(kind=selected_int_kind(5)) :: k5", "  type(tt) :: ob = tt(1)",
           "  character(len=3), dimension(2) :: cs*4", "  integer, dimension(3) :: da, db(5)", "  procedure, pass(self) :: foo", "  module procedure impl", "  import, only: tt",
           "  type :: t3\n    integer :: c3\n  contains\n    procedure, pass(self) :: arr\n    procedure, pass(me) :: b3 => arr\n    procedure :: p3 => impl\n  end type t3"],
    "SP": ["    integer, intent(in), optional :: a2", "    real, dimension(:,:), allocatable, target :: m2", "    character(len=:), allocatable :: cs", "    type(tt), intent(inout) :: o2",
           "    use iso_fortran_env, only: i4 => int32", "    implicit none", "    integer, value :: vv", "    procedure(impl) :: dummy_proc", "    class(*), pointer :: up", "    real*8 x8"],
    "EX": ["    associate (x => y, z => o%c)\n      y = x\n    end associate", "    select type (s => q)\n    type is (tt)\n      y = 1\n    class is (tt)\n    class default\n    end select",
           "    select case (a)\n    case (1:2)\n      y = 2\n    case default\n    end select", "    do i = 1, 3\n      y = i\n    end do", "    do while (a < b)\n    end do",
           "    lbl: do i = 1, 2\n      cycle lbl\n    end do lbl", "    do 10 i = 1, 2\n 10 continue", "    if (a > b) then\n      y = 1\n    else if (a < b) then\n    else\n    end if", "    if (a > b) y = 1",
           "    where (arr > 0) arr = 1", "    where (arr > 0) arr(:) = 1", "    where (arr > 0)\n      arr = 0\n    elsewhere\n    end where", "    forall (i = 1:3) arr(i) = i", "    forall (i = 1:3)\n      arr(i) = 1\n    end forall",
           "    block\n      integer :: bv\n      bv = 1\n    end block", "    critical\n    end critical", "    call o%pb()", "    call host(a=1, b=y)", "    y = o%c + f(a, b) * arr(1)",
           "    print *, 'it''s', \"q\" // 'x' ! c", "    write (*, '(a)') 's'", "    allocate(q, source=o)", "    open(unit=1, file='f')", "    y = merge(a, b, a > b)", "    10 format (i5)",
           "    call host(a, &\n      b)", "    return", "    stop 1", "    y = a; i = b", "    blocks(1) = 0", "    selector = 1", "    type = 2", "    o % c = arr ( 1 )", "    y = ntrue", "    print *, \"hi!\", y",
           "    y = a + &\n    ! a comment between\n\n      b\n    i = 1", "    call host(a, &\n#ifdef A\n#endif\n      b)\n    i = 2"],
    "TOP": ["program p\n  use tm\n  implicit none\n  call host(1, 2)\nend program p", "submodule (tm) sm\ncontains\n  module procedure impl\n  end procedure impl\nend submodule sm",
            "function f(x) result(r)\n  integer :: x, r\n  r = x\nend function f", "integer function g(x)\n  integer x\n  g = x\nend function", "recursive pure subroutine rs(x)\n  integer, intent(in) :: x\nend subroutine",
            "block data bd\nend block data", "subroutine s2()\n  include 'inc.f90'\nend subroutine s2", "module m2\n  use tm, only: tt, h => host\nend module m2"],
    "PP": ["#define F(a,b) a+b\n  y = F(1,2)", "#define X 1\n#if X > 0 && defined(X)\n  y = 1\n#elif X\n#else\n#endif", "#ifdef X\n#endif", "#ifndef X\n  y = 2\n#endif", "#define X 2\n#undef X\n  y = X",
           "#include \"x.h\"", "#define M(a) #a\n  y = M(b)", "#if defined(A) || (B == 2)\n#endif", "#define LONG 1 \\\n  + 2\n  y = LONG", "#define G(a,b,c,d,e,f,g,h) a\n  y = G(1,2,3,4,5,6,7,8)", "#if(defined(A))\n#endif", "#if HAVE_MPI && A\n  y = HAVE_MPI + A + X\n#endif\n  i = T"],
}
TOKEN_RE = re.compile(r"[A-Za-z_]\w*|\d+|=>|::|==|/=|<=|>=|\*\*|//|&&|\|\||\s+|.", re.S)
REPL = [",", "(", ")", "=>", "::", "=", "%", "&", "'", "\"", ":", ";", "*", "1", "x", "!", "#", "/", "[", "]", ",,", "()", "(,", ",)"]


def stmt_mutations(slot, k):
    """all single-token mutations of template k of a slot -> list of (tag, statement text)"""
    st = TEMPLATES[slot][k]
    toks = TOKEN_RE.findall(st)
    idx = [n for n, t in enumerate(toks) if not t.isspace()]
    out = [("orig", st)]
    for n in idx:
        out.append((f"del{n}", "".join(toks[:n] + toks[n + 1:])))
        out.append((f"dup{n}", "".join(toks[:n + 1] + toks[n:])))
        for r in REPL:
            out.append((f"rep{n}:{r}", "".join(toks[:n] + [r] + toks[n + 1:])))
            out.append((f"ins{n}:{r}", "".join(toks[:n] + [r] + toks[n:])))
    for a, b in zip(idx, idx[1:]):
        sw = list(toks)
        sw[a], sw[b] = sw[b], sw[a]
        out.append((f"swap{a}", "".join(sw)))
    out.append(("trunc", st[:len(st) // 2]))
    return out


def stmt_mutation_count():
    return sum(len(stmt_mutations(s, k)) for s in TEMPLATES for k in range(len(TEMPLATES[s])))


def stmt_mutation_text(rng):
    """one mutated statement inside the wrapper -> (tag, text, ext)"""
    slot = rng.choice(sorted(TEMPLATES))
    k = rng.randrange(len(TEMPLATES[slot]))
    muts = stmt_mutations(slot, k)
    tag, st = rng.choice(muts)
    fill = {"MS": "", "SP": "", "EX": "", "TOP": ""}
    if slot == "PP":
        fill["EX"] = st
    else:
        fill[slot] = st
    text = WRAP
    for s_, v in fill.items():
        text = text.replace(f"@{s_}@", v)
    if rng.random() < 0.15:
        text = st + "\n"  # the statement alone, outside any scope
    return f"{slot}{k}:{tag.split(':')[0]}", text, (".F90" if slot == "PP" else rng.choice([".f90", ".f90", ".F90"]))


_ALL_MUT = []


def all_stmt_mutations():
    """the complete list of (slot, template index, tag, statement) in a fixed order"""
    if not _ALL_MUT:
        for slot in sorted(TEMPLATES):
            for k in range(len(TEMPLATES[slot])):
                for tag, st in stmt_mutations(slot, k):
                    _ALL_MUT.append((slot, k, tag, st))
    return _ALL_MUT


def wrap_stmt(slot, st, alone=False):
    if alone:
        return st + "\n"
    fill = {"MS": "", "SP": "", "EX": "", "TOP": ""}
    fill["EX" if slot == "PP" else slot] = st
    text = WRAP
    for s_, v in fill.items():
        text = text.replace(f"@{s_}@", v)
    return text
