"""Program model: multi-file Fortran workspaces with ground truth by construction.

gen_workspace(rng, **opts) -> W   with
  W.files        {relpath: text}
  W.occs         [Occ(file, line, col, name, ent, ctx)]   every occurrence of a user name
  W.outline      [Node(kind, name, container, file, sline, eline)]  units, procedures, types, interfaces, components, bindings
  W.scopes       all Scope objects; visible(scope) is the reference resolver
  W.roles        {file: [(line, role, scope)]}  line roles used by the defect-seeding operators (C07)
  W.order        files in compilation order (for gfortran)
Identifiers come from a deliberately small pool so that spellings recur across scopes and modules.
"""
from __future__ import annotations

import random

import os
import re
import shutil
import subprocess
import tempfile
from collections import namedtuple

POOL = ["alpha", "beta", "gam", "delta", "eps", "zeta", "eta", "theta"]
COMP_POOL = ["cx", "cy", "cz", "cw", "alpha", "beta"]

Occ = namedtuple("Occ", "file line col name ent ctx")
Node = namedtuple("Node", "kind name container file sline eline")


class Ent:
    def __init__(self, name, kind, scope, **kw):
        self.name, self.kind, self.scope = name, kind, scope
        self.vis = None
        self.file = self.line = self.col = None
        self.tdef = None  # derived type of a variable / component
        self.__dict__.update(kw)

    def __repr__(self):
        return f"<{self.kind} {self.scope.path() if self.scope else ''}::{self.name}>"

    def module(self):
        s = self.scope
        while s is not None and s.parent is not None:
            s = s.parent
        return s


class TypeDef(Ent):
    def __init__(self, name, scope):
        super().__init__(name, "type", scope)
        self.comps, self.binds, self.parent = [], [], None

    def path(self):
        return self.scope.path() + "::" + self.name

    def members(self):
        """name -> Ent, own members override inherited ones"""
        out = {}
        if self.parent is not None:
            out.update(self.parent.members())
        for c in self.comps + self.binds:
            out[c.name] = c
        return out


class Scope:
    def __init__(self, name, kind, parent=None):
        self.name, self.kind, self.parent = name, kind, parent
        self.ents, self.procs, self.uses = [], [], []
        self.default_private = False
        self.args, self.result = [], None
        self.ent = None
        self.stmts = []
        self.file = self.sline = self.eline = None
        self.includes = []  # [(incfile, [Ent])]
        self.blocks = []

    def path(self):
        return (self.parent.path() + "::" if self.parent else "") + self.name

    def chain(self):
        s, out = self, []
        while s is not None:
            out.append(s)
            s = s.parent
        return out


class Use:
    def __init__(self, mod, only=None, renames=None):
        self.mod, self.only = mod, only  # only: [(local, remote)] or None
        self.renames = renames or []     # whole-module USE with renames: `use m, local => remote` (remote is then hidden under its own name)


def is_public(mod, e):
    return e.vis == "public" or (e.vis is None and not mod.default_private)


def exports(mod, seen=()):
    """names a USE of `mod` makes available: local name -> Ent (PUBLIC/PRIVATE, ONLY, rename and re-export honoured)"""
    if mod in seen:
        return {}
    out = {}
    for u in mod.uses:
        for n, e in imported(u, seen + (mod,)).items():
            v = mod.reexport_vis.get(n)
            if v == "public" or (v is None and not mod.default_private):
                out[n] = e
    for e in mod.ents:
        if is_public(mod, e):
            out[e.name] = e
    for p in mod.procs:
        if is_public(mod, p.ent):
            out[p.name] = p.ent
    return out


def imported(u, seen=()):
    ex = exports(u.mod, seen)
    if u.only is None:
        out = dict(ex)
        for loc, rem in u.renames:
            if rem in out:
                out[loc] = out.pop(rem)
        return out
    return {loc: ex[rem] for loc, rem in u.only if rem in ex}


def visible(scope):
    """name -> Ent visible in `scope`; the innermost scoping unit wins"""
    out = {}
    for s in reversed(scope.chain()):
        layer = {}
        for u in s.uses:
            layer.update(imported(u))
        for e in s.ents:
            layer[e.name] = e
        for p in s.procs:
            layer[p.name] = p.ent
        if s.kind == "fun" and s.result is not None:
            layer[s.result.name] = s.result
        out.update(layer)
    return out


# ---------------------------------------------------------------------------------------------
# generation


class W:
    pass


# identifiers that start like statement keywords
KWPOOL = ["blocks", "typeset", "dot", "selector", "wherever", "endpoint", "doi", "interfaces", "modulex", "contained", "implicitx", "used", "includes", "enumx",
          "functional", "associated", "criticalx", "forallx", "elsewherex", "iffy", "programx", "subroutinex", "endif1", "enddo1", "procedures", "importer", "publicx", "privatex", "generic1",
          "finalx", "casex", "elsex", "callx", "printx", "integerx", "realx", "logicalx", "characterx", "classx", "externalx", "parameterx", "resultx", "submodx", "ntrue", "nfalse"]


class Gen:
    def __init__(self, rng, nmod=None, tight=False, dollar=False, types=True, includes=True, constructs=True, generics=True, split_files=True,
                 style=None, nested_uses=True, labeldo=False):
        self.rng = rng
        self.o = dict(tight=tight, dollar=dollar, types=types, includes=includes, constructs=constructs, generics=generics, labeldo=labeldo)
        self.lblno = 0
        self.nmod = nmod or rng.randint(2, 4)
        self.mods = []
        self.all_types = []
        self.uid = 0
        self.nested_uses = nested_uses
        self.split_files = split_files
        self.rng2 = random.Random(rng.random())  # private stream for the statement kinds added later
        # chain mode: every module declares a public type extending the newest type of the previous module (EXTENDS chains of 3+ levels
        # across files); decided from a private stream so that the other draws stay as they were
        self.chain = types and random.Random(rng.random()).random() < 0.25

    def fresh(self, base):
        self.uid += 1
        return f"{base}{self.uid}"

    # -- USE ---------------------------------------------------------------------------------
    def add_use(self, scope, mod, taken, allow_rename=True):
        rng = self.rng
        ex = exports(mod)
        if not ex:
            return
        r = rng.random()
        if r < 0.4 and not (set(ex) & taken):
            ren = []
            if allow_rename and self.rng2.random() < 0.25:
                cand = [n for n in sorted(ex) if ex[n].kind in ("var", "sub", "fun", "type") and ex[n].module() is mod and ex[n].name == n]
                if cand:
                    rem = self.rng2.choice(cand)
                    loc = self.rng2.choice(POOL) + "_w"
                    if loc not in taken and loc not in ex:
                        ren.append((loc, rem))
            scope.uses.append(Use(mod, None, ren))
            taken.update(ex)
            taken.update(l for l, _ in ren)
            return
        only = []
        for rem in rng.sample(sorted(ex), k=min(len(ex), rng.randint(1, 3))):
            if allow_rename and rng.random() < 0.35 and ex[rem].kind in ("var", "sub", "fun", "type"):
                loc = rng.choice(POOL) + "_r"
                if loc in taken:
                    continue
                only.append((loc, rem))
                taken.add(loc)
            else:
                if rem in taken:
                    continue
                only.append((rem, rem))
                taken.add(rem)
        if only:
            scope.uses.append(Use(mod, only))

    # -- modules -----------------------------------------------------------------------------
    def gen_module(self, i):
        rng = self.rng
        m = Scope(f"m{i}", "module")
        m.reexport_vis = {}
        m.default_private = rng.random() < 0.35
        taken = {m.name}
        for j in rng.sample(range(i), k=min(i, rng.randint(0, 2))):
            self.add_use(m, self.mods[j], taken)
        if self.chain and i > 0 and not any(u.mod is self.mods[i - 1] for u in m.uses):
            prev_t = [e for e in self.mods[i - 1].ents if e.kind == "type" and exports(self.mods[i - 1]).get(e.name) is e and e.name not in taken]
            if prev_t:
                m.uses.append(Use(self.mods[i - 1], [(prev_t[-1].name, prev_t[-1].name)]))
                taken.add(prev_t[-1].name)
        # visibility overrides for re-exported names (PUBLIC :: x / PRIVATE :: x of use-associated entities)
        for u in m.uses:
            for n in imported(u):
                if rng.random() < 0.15:
                    m.reexport_vis[n] = rng.choice(["public", "private"])
        # derived types
        if self.o["types"]:
            for k in range(rng.randint(0, 2) if not self.chain else rng.randint(1, 2)):
                self.gen_type(m, i, taken)
        # variables
        for n in rng.sample(POOL, k=rng.randint(1, 4)):
            if self.o["dollar"] and rng.random() < 0.3:
                n = n + "$v"
            if n in taken:
                continue
            e = Ent(n, "var", m)
            e.vis = rng.choice([None, None, "public", "private"])
            m.ents.append(e)
            taken.add(n)
        vis = visible(m)
        tds = [e for e in vis.values() if e.kind == "type"]
        if tds and rng.random() < 0.7:
            n = self.fresh("obj")
            e = Ent(n, "var", m)
            e.tdef = rng.choice(tds)
            e.tname = next(k for k, v in vis.items() if v is e.tdef)
            e.vis = rng.choice([None, "public"])
            m.ents.append(e)
            taken.add(n)
        # generic interface
        if self.o["generics"] and rng.random() < 0.4:
            g = Ent(f"gen{i}", "generic", m)
            g.vis = rng.choice([None, "public"])
            g.targets = []
            for suf, ty in (("i", "integer"), ("r", "real")):
                p = Scope(f"gs{i}_{suf}", "sub", m)
                p.ent = Ent(p.name, "sub", m, node=p)
                p.ent.vis = rng.choice([None, "private"])
                a = Ent("x", "var", p, is_arg=True, vtype=ty)
                p.ents.append(a)
                p.args = [a]
                p.callable_int = (ty == "integer")
                p.generic_member = True
                m.procs.append(p)
                g.targets.append(p.ent)
                taken.add(p.name)
            m.ents.append(g)
            taken.add(g.name)
        # procedures
        for k in range(rng.randint(1, 3)):
            kind = rng.choice(["sub", "sub", "fun"])
            pn = rng.choice(["helper", "setup", "work"]) if rng.random() < 0.25 else f"p{i}_{k}"
            if pn in taken:
                pn = f"p{i}_{k}"
            if pn in taken:
                continue
            p = Scope(pn, kind, m)
            p.ent = Ent(pn, kind, m, node=p)
            p.ent.vis = rng.choice([None, None, "public", "private"])
            m.procs.append(p)
            taken.add(pn)
        for p in m.procs:
            if not getattr(p, "generic_member", False) and not getattr(p, "impl_of", None):
                self.gen_proc(p, i, depth=0)
        for p in m.procs:
            if getattr(p, "impl_of", None) or getattr(p, "generic_member", False):
                self.gen_body(p)
        return m

    def gen_type(self, m, i, taken):
        rng = self.rng
        tn = self.fresh(f"t{i}_")
        t = TypeDef(tn, m)
        t.vis = rng.choice([None, None, "public", "private"])
        vis = visible(m)
        cands = [(k, v) for k, v in vis.items() if v.kind == "type"]
        if cands and rng.random() < 0.45:
            deep = [(k, v) for k, v in cands if v.parent is not None]
            # prefer parents that are extensions themselves: chains of three and more levels, usually across files
            pname, t.parent = rng.choice(deep if deep and rng.random() < 0.6 else cands)
            t.parent_name = pname
        if self.chain and cands:
            def depth(v):
                return 0 if v is None else 1 + depth(v.parent)
            other = [(k, v) for k, v in cands if v.scope is not m] or cands
            pname, t.parent = max(other, key=lambda kv: (depth(kv[1]), kv[0]))
            t.parent_name = pname
            t.vis = "public"
        inherited = set(t.parent.members()) if t.parent else set()
        for cn in rng.sample(COMP_POOL, k=rng.randint(1, 3)):
            if cn in inherited:
                continue
            c = Ent(cn, "comp", t)
            t.comps.append(c)
        others = [(k, v) for k, v in cands if v is not t.parent]
        if others and rng.random() < 0.5:
            k, v = rng.choice(others)
            c = Ent(self.fresh("inner"), "comp", t)
            c.tdef, c.tname = v, k
            t.comps.append(c)
        # bindings implemented by module procedures
        for b in range(rng.randint(0, 2)):
            bn = rng.choice(["run", "show", "norm"])
            if bn in [x.name for x in t.binds]:
                continue
            impl = Scope(self.fresh(f"{tn}_{bn}_"), "sub", m)
            impl.ent = Ent(impl.name, "sub", m, node=impl)
            impl.ent.vis = rng.choice([None, "private"])
            selfv = Ent("self", "var", impl, is_arg=True)
            selfv.tdef, selfv.tname, selfv.cls = t, tn, True
            impl.ents.append(selfv)
            impl.args = [selfv]
            impl.impl_of = t
            m.procs.append(impl)
            be = Ent(bn, "bind", t)
            be.target = impl.ent
            t.binds.append(be)
            taken.add(impl.name)
        m.ents.append(t)
        taken.add(tn)
        self.all_types.append(t)

    def gen_proc(self, p, i, depth):
        rng = self.rng
        taken = {p.name}
        p.args = []
        nargs = rng.choice([0, 1, 1])
        for n in rng.sample(POOL, k=nargs):
            e = Ent(n, "var", p, is_arg=True)
            p.ents.append(e)
            p.args.append(e)
            taken.add(n)
        p.callable_int = True
        if p.kind == "fun":
            rn = rng.choice(["res", "rv"]) if rng.random() < 0.7 else None
            if rn and rn not in taken:
                p.result = Ent(rn, "var", p, is_result=True)
                taken.add(rn)
            else:
                p.result = None  # result is the function name itself
        if self.nested_uses and rng.random() < 0.4 and i > 0:
            self.add_use(p, self.mods[rng.randrange(i)], taken)
        for n in rng.sample(POOL, k=rng.randint(0, 3)):
            if n in taken:
                continue
            p.ents.append(Ent(n, "var", p))
            taken.add(n)
        vis = visible(p)
        tds = [(k, v) for k, v in vis.items() if v.kind == "type"]
        if tds and rng.random() < 0.5:
            k, v = rng.choice(tds)
            e = Ent(self.fresh("lo"), "var", p)
            e.tdef, e.tname = v, k
            p.ents.append(e)
        if depth == 0 and rng.random() < 0.4:
            q = Scope(p.name + "_in", rng.choice(["sub", "fun"]), p)
            q.ent = Ent(q.name, q.kind, p, node=q)
            p.procs.append(q)
            self.gen_proc(q, i, 1)
        self.gen_body(p)

    # -- statements --------------------------------------------------------------------------
    def gen_body(self, s):
        rng = self.rng
        s.stmts = [self.gen_stmt(s, 0) for _ in range(rng.randint(1, 5))]
        s.stmts = [x for x in s.stmts if x]
        if getattr(s, "impl_of", None) is not None and self.o["constructs"] and s.args and self.rng2.random() < 0.5:
            # SELECT TYPE on the passed-object dummy: TYPE IS / CLASS IS / CLASS DEFAULT guards
            # inside the guard blocks the selector is a construct entity of its own (typed by the guard): the blocks do not refer to it
            sv_ = s.args[0]
            at_ = s.ents.index(sv_)
            s.ents.remove(sv_)
            body = [x for x in (self.gen_stmt(s, 2) for _ in range(2)) if x]
            body2 = [x for x in (self.gen_stmt(s, 2) for _ in range(2)) if x]
            s.ents.insert(at_, sv_)
            s.stmts.insert(self.rng2.randint(0, len(s.stmts)), ("seltype", s.args[0], s.impl_of, body, body2, self.rng2.randrange(4)))

    def int_vars(self, s, extra=None):
        vis = visible(s)
        if extra:
            vis = dict(vis, **extra)
        return [(n, e) for n, e in vis.items() if e.kind == "var" and e.tdef is None and getattr(e, "vtype", "integer") == "integer"
                and not getattr(e, "loopvar", False)]

    def gen_stmt(self, s, depth, extra=None):
        """-> nested list structure: ('assign', [parts]) etc.; parts are str or (name, ent, ctx)"""
        rng = self.rng
        vis = visible(s)
        if extra:
            vis = dict(vis, **extra)
        ints = self.int_vars(s, extra)
        r = rng.random()
        anc = set(s.chain())
        if r < 0.35 or depth >= 3:
            if not ints:
                return None
            a, b, c = (rng.choice(ints) for _ in range(3))
            if self.o["constructs"] and not self.o["dollar"]:
                r2 = self.rng2.random()
                if r2 < 0.08:
                    # an array whose name starts like a keyword, assigned element-wise: `blocks12(1) = a + b` is not a BLOCK construct
                    ka = Ent(self.fresh(self.rng2.choice(KWPOOL)), "var", s, loopvar=True, dims="(3)")
                    s.ents.append(ka)
                    return ("kwassign", ka, [b, c])
                if r2 < 0.16:
                    # character literals (with ! and quotes inside) before real occurrences, and a trailing comment after them
                    return ("printlit", [a, b], self.rng2.randrange(4))
            return ("assign", [a, b, c])
        if r < 0.5:
            procs = [(n, e) for n, e in vis.items() if e.kind == "sub" and getattr(e, "node", None) is not None and e.node not in anc
                     and getattr(e.node, "callable_int", False) and not getattr(e.node, "impl_of", None) and len(e.node.args) <= 1]
            if not procs:
                return None
            n, e = rng.choice(procs)
            if e.node.args:
                if not ints:
                    return None
                return ("call", [(n, e, "call"), rng.choice(ints)])
            return ("call", [(n, e, "call")])
        if r < 0.58:
            funs = [(n, e) for n, e in vis.items() if e.kind == "fun" and e.node not in anc and len(e.node.args) == 1]
            if not funs or not ints:
                return None
            n, e = rng.choice(funs)
            return ("funcall", [rng.choice(ints), (n, e, "ref"), rng.choice(ints)])
        if r < 0.64:
            gens = [(n, e) for n, e in vis.items() if e.kind == "generic"]
            if not gens or not ints:
                return None
            n, e = rng.choice(gens)
            return ("call", [(n, e, "call"), rng.choice(ints)])
        if r < 0.8:
            objs = [(n, e) for n, e in vis.items() if e.kind == "var" and e.tdef is not None]
            if not objs or not ints:
                return None
            n, e = rng.choice(objs)
            chain = [(n, e, "ref")]
            t = e.tdef
            for _ in range(4):
                mem = t.members()
                if not mem:
                    return None
                cn = rng.choice(sorted(mem))
                ce = mem[cn]
                if ce.kind == "bind":
                    chain.append((cn, ce, "bind-ref"))
                    return ("bcall", chain)
                chain.append((cn, ce, "comp-ref"))
                if ce.tdef is None:
                    break
                t = ce.tdef
                if rng.random() < 0.3:
                    return None  # whole-object assignment of derived type: skip
            if chain[-1][1].tdef is not None:
                return None
            return ("massign", chain, rng.choice(ints), rng.random() < 0.5)
        if not self.o["constructs"]:
            return None
        kind = rng.choice(["do", "dowhile", "nameddo", "if", "ifelse", "select", "block", "associate", "where", "oneline-if", "decoy"])
        body = [x for x in (self.gen_stmt(s, depth + 1, extra) for _ in range(rng.randint(1, 3))) if x]
        if self.o["labeldo"] and kind == "do" and ints and self.rng2.random() < 0.6:
            # labelled DO closed by a labelled CONTINUE; in half of them two nested loops share the terminal label (opt-in: C04 only)
            self.lblno += 10
            lv = Ent(self.fresh("ix"), "var", s, loopvar=True)
            s.ents.append(lv)
            lv2 = None
            if self.rng2.random() < 0.5:
                lv2 = Ent(self.fresh("ix"), "var", s, loopvar=True)
                s.ents.append(lv2)
            return ("labeldo", (lv.name, lv), body, [], self.lblno, lv2)
        if kind == "decoy":
            if not ints:
                return None
            return ("decoy", rng.choice(ints))
        if kind == "oneline-if":
            if not ints:
                return None
            a, b, c = (rng.choice(ints) for _ in range(3))
            return ("oneline-if", [a, b, c])
        if kind in ("do", "nameddo") and not ints:
            return None
        if kind == "associate":
            if not ints:
                return None
            an = self.fresh("as")
            tgt = rng.choice(ints)
            ae = Ent(an, "var", s, assoc=True)
            ex2 = dict(extra or {})
            ex2[an] = ae
            body = [x for x in (self.gen_stmt(s, depth + 1, ex2) for _ in range(rng.randint(1, 3))) if x]
            return ("associate", ae, tgt, body)
        if kind == "block":
            bn = self.fresh("bv")
            be = Ent(bn, "var", s, block=True)
            ex2 = dict(extra or {})
            ex2[bn] = be
            body = [x for x in (self.gen_stmt(s, depth + 1, ex2) for _ in range(rng.randint(1, 3))) if x]
            return ("block", be, body)
        ctl = rng.choice(ints) if ints else None
        if kind in ("if", "ifelse", "dowhile", "select", "where") and ctl is None:
            return None
        if kind in ("do", "nameddo"):
            lv = Ent(self.fresh("ix"), "var", s, loopvar=True)
            s.ents.append(lv)
            ctl = (lv.name, lv)
        if kind == "where":
            # masked and indexed array assignments (WHERE / FORALL statements and constructs) on a local array of the scope
            wa = Ent(self.fresh("wa"), "var", s, loopvar=True, dims="(3)")
            s.ents.append(wa)
            form = rng.randrange(6)
            ix = None
            if form in (3, 4):
                ix = Ent(self.fresh("ix"), "var", s, loopvar=True)
                s.ents.append(ix)
            return ("where", ctl, (wa, ix, form), [], self.fresh("lbl"))
        body2 = [x for x in (self.gen_stmt(s, depth + 1, extra) for _ in range(rng.randint(1, 2))) if x] if kind in ("ifelse", "select") else []
        return (kind, ctl, body, body2, self.fresh("lbl"))

    # -- workspace ---------------------------------------------------------------------------
    def build(self):
        rng = self.rng
        for i in range(self.nmod):
            self.mods.append(self.gen_module(i))
        pr = Scope("main", "program")
        taken = {"main"}
        for j in rng.sample(range(self.nmod), k=min(self.nmod, rng.randint(1, 3))):
            self.add_use(pr, self.mods[j], taken)
        for n in rng.sample(POOL, k=2):
            if n not in taken:
                pr.ents.append(Ent(n, "var", pr))
                taken.add(n)
        vis = visible(pr)
        tds = [(k, v) for k, v in vis.items() if v.kind == "type"]
        if tds:
            k, v = rng.choice(tds)
            e = Ent(self.fresh("po"), "var", pr)
            e.tdef, e.tname = v, k
            pr.ents.append(e)
        if rng.random() < 0.4:
            q = Scope("main_in", "sub", pr)
            q.ent = Ent(q.name, "sub", pr, node=q)
            pr.procs.append(q)
            self.gen_proc(q, self.nmod, 1)
        self.gen_body(pr)
        # an external subroutine in its own file
        ext = None
        if rng.random() < 0.5:
            ext = Scope("ext_sub", "sub")
            ext.ent = Ent("ext_sub", "sub", None, node=ext)
            tk = {"ext_sub"}
            self.add_use(ext, self.mods[rng.randrange(self.nmod)], tk)
            for n in rng.sample(POOL, k=2):
                if n not in tk:
                    ext.ents.append(Ent(n, "var", ext))
            ext.args = []
            self.gen_body(ext)
        return pr, ext


# ---------------------------------------------------------------------------------------------
# rendering


class Style:
    """spacing / case / END spelling variants (meaning preserving)"""

    def __init__(self, rng=None, plain=False):
        self.rng, self.plain = rng, plain or rng is None
        self.kwcase = "lower" if self.plain else rng.choice(["lower", "lower", "upper", "title", "mixed"])
        self.indent = 2 if self.plain else rng.choice([1, 2, 3, 4])
        self.end_style = "full" if self.plain else rng.choice(["full", "full", "joined", "noname", "bare", "spaced"])
        self.tight = False
        self.idmix = (not self.plain) and rng.random() < 0.3

    def ident(self, name):
        """identifiers are case-insensitive: spell an occurrence in another case"""
        if not self.idmix or self.rng.random() < 0.5:
            return name
        r = self.rng.random()
        return name.upper() if r < 0.4 else (name.title() if r < 0.7 else "".join(c.upper() if self.rng.random() < 0.5 else c for c in name))

    def kw(self, w):
        if self.kwcase == "lower":
            return w
        if self.kwcase == "upper":
            return w.upper()
        if self.kwcase == "title":
            return w.title()
        return "".join(c.upper() if self.rng.random() < 0.5 else c for c in w)

    def end_kw(self, what):
        """`end what` with the glue of the style: `end what`, `endwhat` or `end  what` (the caller appends the name)"""
        k = self.kw
        st = self.end_style
        if self.rng is not None and not self.plain and self.rng.random() < 0.3:
            st = self.rng.choice(["full", "joined", "spaced"])
        if st == "joined":
            return f"{k('end')}{k(what)}"
        if st == "spaced":
            return f"{k('end')}  {k(what)}"
        return f"{k('end')} {k(what)}"

    def end(self, what, name=None, allow_bare=True):
        k = self.kw
        st = self.end_style
        if self.rng is not None and not self.plain and self.rng.random() < 0.3:
            st = self.rng.choice(["full", "joined", "noname", "bare", "spaced"])
        if st == "bare" and not allow_bare:
            st = "noname"
        if st == "full":
            return f"{k('end')} {k(what)}" + (f" {name}" if name else "")
        if st == "joined":
            return f"{k('end')}{k(what)}" + (f" {name}" if name else "")
        if st == "noname":
            return f"{k('end')} {k(what)}"
        if st == "spaced":
            return f"{k('end')}  {k(what)}" + (f"  {name}" if name else "")
        return k("end")


class Renderer:
    def __init__(self, gen, style):
        self.g, self.st = gen, style
        self.files, self.occs, self.outline, self.roles = {}, [], [], {}
        self.cur = None

    def begin(self, fname):
        self.cur = fname
        self.files[fname] = []
        self.roles[fname] = []

    def L(self, parts, role=None, scope=None):
        """emit one line; parts are str or (name, ent, ctx)"""
        lines = self.files[self.cur]
        t = ""
        ln = len(lines)
        for p in parts:
            if isinstance(p, str):
                t += p
            else:
                name, ent, ctx = p
                name = self.st.ident(name)
                self.occs.append(Occ(self.cur, ln, len(t), name, ent, ctx))
                t += name
        lines.append(t)
        if role:
            self.roles[self.cur].append((ln, role, scope))
        return ln

    def decl_pos(self, ent, ln, col):
        ent.file, ent.line, ent.col = self.cur, ln, col

    def ref(self, pair, ctx="ref"):
        n, e = pair[0], pair[1]
        return (n, e, pair[2] if len(pair) > 2 else ctx)

    # -- statements --------------------------------------------------------------------------
    def stmts(self, s, stmts, ind):
        k, pad = self.st.kw, " " * ind
        tight = self.st.tight
        eq, pl = ("=", "+") if tight else (" = ", " + ")
        for x in stmts:
            kind = x[0]
            if kind == "assign":
                a, b, c = x[1]
                self.L([pad, self.ref(a), eq, self.ref(b), pl, self.ref(c)], "stmt", s)
            elif kind == "seltype":
                sv, t, body, body2, form = x[1:]
                i2 = ind + self.st.indent
                self.L([pad, k("select") + " " + k("type") + " (", self.ref((sv.name, sv)), ")"], "open", s)
                if form in (0, 2, 3):
                    self.L([pad, k("type") + " " + k("is") + " (", (t.name, t, "type-spec"), ")"], "mid", s)
                    self.stmts(s, body, i2)
                if form in (1, 3):
                    self.L([pad, k("class") + " " + k("is") + " (", (t.name, t, "type-spec"), ")"], "mid", s)
                    self.stmts(s, body if form == 1 else [], i2)
                if form in (0, 1, 3):
                    self.L([pad, k("class") + " " + k("default")], "mid", s)
                    self.stmts(s, body2, i2)
                self.L([pad, self.st.end("select", allow_bare=False)], "close", s)
            elif kind == "kwassign":
                ka, (b, c) = x[1], x[2]
                self.L([pad, self.ref((ka.name, ka)), "(1)", eq, self.ref(b), pl, self.ref(c)], "stmt", s)
                self.L([pad, self.ref(b), eq, self.ref((ka.name, ka)), "(2)"], "stmt", s)
            elif kind == "printlit":
                (a, b), form = x[1], x[2]
                lit1 = ["'sum is'", "\"hi!\"", "'it''s ! not a comment'", "\"a 'quoted' ! word\""][form]
                self.L([pad, k("print") + " *, " + lit1 + ", ", self.ref(a), ", 'and', ", self.ref(b), f"   ! report {a[0]} here"], "stmt", s)
            elif kind == "call":
                parts = [pad, k("call") + " ", x[1][0]]
                if len(x[1]) > 1:
                    parts += ["(", self.ref(x[1][1]), ")"]
                else:
                    parts += ["()"]
                self.L(parts, "stmt", s)
            elif kind == "funcall":
                a, f, b = x[1]
                self.L([pad, self.ref(a), eq, f, "(", self.ref(b), ")"], "stmt", s)
            elif kind == "massign":
                chain, iv, left = x[1], x[2], x[3]
                cp = []
                for n, c in enumerate(chain):
                    if n:
                        cp.append("%")
                    cp.append(c)
                self.L(([pad] + cp + [eq, self.ref(iv)]) if left else ([pad, self.ref(iv), eq] + cp), "stmt", s)
            elif kind == "bcall":
                cp = []
                for n, c in enumerate(x[1]):
                    if n:
                        cp.append("%")
                    cp.append(c)
                self.L([pad, k("call") + " "] + cp + ["()"], "stmt", s)
            elif kind == "decoy":
                n, e = x[1]
                self.L([pad, k("print") + f" *, 'end do {n} end if', \"{n} = end\" ! {n} end subroutine {n}"], "stmt", s)
                self.L([pad, f"! {k('end')} {k('module')} {n}"], None, s)
            elif kind == "oneline-if":
                a, b, c = x[1]
                self.L([pad, k("if") + " (", self.ref(a), " > 0) ", self.ref(b), eq, self.ref(c)], "stmt", s)
            elif kind == "associate":
                ae, tgt, body = x[1], x[2], x[3]
                ln = self.L([pad, k("associate") + " (", (ae.name, ae, "decl"), " => ", self.ref(tgt), ")"], "open", s)
                ae.file, ae.line = self.cur, ln
                ae.col = len(pad) + len("associate (")
                self.stmts(s, body, ind + self.st.indent)
                self.L([pad, self.st.end("associate", allow_bare=False)], "close", s)
            elif kind == "block":
                be, body = x[1], x[2]
                self.L([pad, k("block")], "open", s)
                p2 = " " * (ind + self.st.indent)
                ln = self.L([p2, k("integer") + " :: ", (be.name, be, "decl")], "decl", s)
                self.decl_pos(be, ln, len(p2) + len("integer :: "))
                self.L([p2, (be.name, be, "ref"), eq, "1"], "stmt", s)
                self.stmts(s, body, ind + self.st.indent)
                self.L([pad, self.st.end("block", allow_bare=False)], "close", s)
            elif kind == "labeldo":
                ctl, body, n, lv2 = x[1], x[2], x[4], x[5]
                i2 = ind + self.st.indent
                self.L([pad, k("do") + f" {n} ", self.ref(ctl), eq, "1, 3"], "open", s)
                if lv2 is not None:
                    self.L([" " * i2, k("do") + f" {n} ", self.ref((lv2.name, lv2)), eq, "1, 2"], "open", s)
                    i2 += self.st.indent
                self.stmts(s, body, i2)
                self.L([pad, f"{n} " + k("continue")], "close", s)
            else:
                ctl, body, body2, lbl = x[1], x[2], x[3], x[4]
                i2 = ind + self.st.indent
                if kind == "do":
                    self.L([pad, k("do") + " ", self.ref(ctl), eq, "1, 3"], "open", s)
                    self.stmts(s, body, i2)
                    self.L([pad, self.st.end("do", allow_bare=False)], "close", s)
                elif kind == "nameddo":
                    self.L([pad, f"{lbl}: " + k("do") + " ", self.ref(ctl), eq, "1, 3"], "open", s)
                    self.stmts(s, body, i2)
                    self.L([pad, f"{k('end')} {k('do')} {lbl}"], "close", s)
                elif kind == "dowhile":
                    self.L([pad, k("do") + " " + k("while") + " (", self.ref(ctl), " < 0)"], "open", s)
                    self.stmts(s, body, i2)
                    self.L([pad, self.st.end("do", allow_bare=False)], "close", s)
                elif kind in ("if", "ifelse"):
                    self.L([pad, k("if") + " (", self.ref(ctl), " == 1) " + k("then")], "open", s)
                    self.stmts(s, body, i2)
                    if kind == "ifelse":
                        self.L([pad, k("else") + (" " if self.st.rng is None or self.st.rng.random() < 0.5 else "") + k("if") + " (", self.ref(ctl), " == 2) " + k("then")], "mid", s)
                        self.stmts(s, body2, i2)
                        self.L([pad, k("else")], "mid", s)
                        self.stmts(s, body, i2) if False else None
                    self.L([pad, self.st.end("if", allow_bare=False)], "close", s)
                elif kind == "select":
                    self.L([pad, k("select") + " " + k("case") + " (", self.ref(ctl), ")"], "open", s)
                    self.L([pad, k("case") + " (1)"], "mid", s)
                    self.stmts(s, body, i2)
                    self.L([pad, k("case") + " " + k("default")], "mid", s)
                    self.stmts(s, body2, i2)
                    self.L([pad, self.st.end("select", allow_bare=False)], "close", s)
                elif kind == "where":
                    wa, ix, form = body
                    wr = lambda: self.ref((wa.name, wa))
                    p2 = " " * i2
                    if form == 0:
                        self.L([pad, k("where") + " (", wr(), " > 0) ", wr(), eq, self.ref(ctl)], "stmt", s)
                    elif form == 1:
                        self.L([pad, k("where") + " (", wr(), " > 0) ", wr(), "(:)", eq, self.ref(ctl)], "stmt", s)
                    elif form == 2:
                        self.L([pad, k("where") + " (", wr(), " > 0)"], "open", s)
                        self.L([p2, wr(), eq, self.ref(ctl)], "stmt", s)
                        self.L([pad, k(self.st.rng.choice(["elsewhere", "else where"]) if self.st.rng is not None else "elsewhere")], "mid", s)
                        self.L([p2, wr(), "(:)", eq, "0"], "stmt", s)
                        self.L([pad, self.st.end("where", allow_bare=False)], "close", s)
                    elif form == 3:
                        self.L([pad, k("forall") + " (", self.ref((ix.name, ix)), " = 1:3) ", wr(), "(", self.ref((ix.name, ix)), ")", eq, self.ref(ctl)], "stmt", s)
                    elif form == 4:
                        self.L([pad, k("forall") + " (", self.ref((ix.name, ix)), " = 1:3)"], "open", s)
                        self.L([p2, wr(), "(", self.ref((ix.name, ix)), ")", eq, self.ref(ctl)], "stmt", s)
                        self.L([pad, self.st.end("forall", allow_bare=False)], "close", s)
                    else:
                        self.L([pad, k("if") + " (", self.ref(ctl), " /= 0) " + k("then") + " ! where (x) elsewhere end where"], "open", s)
                        self.L([p2, wr(), eq, "0"], "stmt", s)
                        self.L([pad, self.st.end("if", allow_bare=False)], "close", s)

    # -- declarations ------------------------------------------------------------------------
    def var_decl(self, s, e, ind):
        k, pad = self.st.kw, " " * ind
        attrs = ""
        if e.vis:
            attrs += f", {k(e.vis)}"
        if getattr(e, "is_arg", False):
            attrs += ", " + k("intent") + "(" + k("inout") + ")"
        if e.tdef is not None:
            kwd = k("class") if getattr(e, "cls", False) else k("type")
            head = [pad, kwd + "(", (e.tname, e.tdef, "type-spec"), ")" + attrs + " :: "]
        else:
            head = [pad, k(getattr(e, "vtype", "integer")) + attrs + " :: "]
        col = sum(len(p) if isinstance(p, str) else len(p[0]) for p in head)
        ln = self.L(head + [(e.name, e, "decl")] + ([e.dims] if getattr(e, "dims", None) else []), "decl", s)
        self.decl_pos(e, ln, col)

    def type_def(self, m, t, ind):
        k, pad, p2 = self.st.kw, " " * ind, " " * (ind + self.st.indent)
        head = [pad, k("type")]
        if t.vis:
            head.append(", " + k(t.vis))
        if t.parent is not None:
            head += [", " + k("extends") + "(", (t.parent_name, t.parent, "extends"), ")"]
        head.append(" :: ")
        col = sum(len(p) if isinstance(p, str) else len(p[0]) for p in head)
        sl = self.L(head + [(t.name, t, "typehdr")], "type-open", m)
        self.decl_pos(t, sl, col)
        for c in t.comps:
            if c.tdef is not None:
                h = [p2, k("type") + "(", (c.tname, c.tdef, "type-spec"), ") :: "]
            else:
                h = [p2, k("integer") + " :: "]
            col = sum(len(p) if isinstance(p, str) else len(p[0]) for p in h)
            ln = self.L(h + [(c.name, c, "comp-decl")], "comp", m)
            self.decl_pos(c, ln, col)
            self.outline.append(Node("component", c.name, t.name, self.cur, ln, ln))
        if t.binds:
            self.L([pad, k("contains")], "type-contains", m)
            for b in t.binds:
                h = [p2, k("procedure") + " :: "]
                col = len(h[0]) + len(h[1])
                ln = self.L(h + [(b.name, b, "bind-decl"), " => ", (b.target.name, b.target, "bind-target")], "binding", m)
                self.decl_pos(b, ln, col)
                self.outline.append(Node("binding", b.name, t.name, self.cur, ln, ln))
        el = self.L([pad, self.st.end_kw("type") + " ", (t.name, t, "typeend")], "type-close", m)
        self.outline.append(Node("type", t.name, m.name, self.cur, sl, el))

    def scope(self, s, ind, container=None):
        k, pad, st = self.st.kw, " " * ind, self.st
        i2 = ind + st.indent
        p2 = " " * i2
        s.file = self.cur
        kwd = {"module": "module", "program": "program", "sub": "subroutine", "fun": "function"}[s.kind]
        if s.kind in ("sub", "fun"):
            parts = [pad, k(kwd) + " ", (s.name, s.ent, "prochdr"), "("]
            for n, a in enumerate(s.args):
                if n:
                    parts.append(", ")
                parts.append((a.name, a, "dummy"))
            parts.append(")")
            if s.kind == "fun" and s.result is not None:
                parts += [" " + k("result") + "(", (s.result.name, s.result, "dummy"), ")"]
            s.sline = self.L(parts, "open-scope", s)
            self.decl_pos(s.ent, s.sline, len(pad) + len(kwd) + 1)
        else:
            s.sline = self.L([pad, k(kwd) + f" {s.name}"], "open-scope", s)
        for u in s.uses:
            parts = [p2, k("use") + f" {u.mod.name}"]
            if u.only is not None:
                parts.append(", " + k("only") + ": ")
                ex = exports(u.mod)
                for n, (l, r) in enumerate(u.only):
                    if n:
                        parts.append(", ")
                    if l != r:
                        parts += [(l, ex[r], "only-alias"), " => ", (r, ex[r], "only-remote")]
                    else:
                        parts.append((l, ex[r], "only"))
            else:
                ex = exports(u.mod)
                for l, r in u.renames:
                    parts += [", ", (l, ex[r], "only-alias"), " => ", (r, ex[r], "only-remote")]
            self.L(parts, "use", s)
        self.L([p2, k("implicit") + " " + k("none")], "implicit", s)
        if s.kind == "module" and s.default_private:
            self.L([p2, k("private")], "private-stmt", s)
        if s.kind == "module":
            for n, v in s.reexport_vis.items():
                e = visible(s).get(n)
                if e is not None:
                    self.L([p2, k(v) + " :: ", (n, e, "vis-stmt")], "vis-stmt", s)
        for e in s.ents:
            if e.kind == "type":
                self.type_def(s, e, i2)
        if s.kind == "fun":
            r = s.result if s.result is not None else None
            if r is not None:
                col = len(p2) + len("integer :: ")
                ln = self.L([p2, k("integer") + " :: ", (r.name, r, "decl")], "decl", s)
                self.decl_pos(r, ln, col)
            else:
                ln = self.L([p2, k("integer") + " :: ", (s.name, s.ent, "result-decl")], "decl", s)
        for e in s.ents:
            if e.kind == "var":
                self.var_decl(s, e, i2)
        for e in s.ents:
            if e.kind == "generic":
                col = len(p2) + len("interface ")
                sl = self.L([p2, k("interface") + " ", (e.name, e, "generic-decl")], "iface-open", s)
                self.decl_pos(e, sl, col)
                parts = [" " * (i2 + st.indent), k("module") + " " + k("procedure") + " :: "]
                for n, t in enumerate(e.targets):
                    if n:
                        parts.append(", ")
                    parts.append((t.name, t, "modproc"))
                self.L(parts, "modproc", s)
                el = self.L([p2, st.end_kw("interface") + " ", (e.name, e, "generic-end")], "iface-close", s)
                self.outline.append(Node("interface", e.name, s.name, self.cur, sl, el))
                if e.vis:
                    self.L([p2, k(e.vis) + " :: ", (e.name, e, "vis-stmt")], "vis-stmt", s)
        for p in s.procs:
            if p.ent.vis and s.kind == "module":
                self.L([p2, k(p.ent.vis) + " :: ", (p.name, p.ent, "vis-stmt")], "vis-stmt", s)
        if s.kind != "module":
            if s.kind == "fun":
                rn = (s.result.name, s.result) if s.result is not None else (s.name, s.ent)
                self.L([p2, (rn[0], rn[1], "ref"), " = 0"], "stmt", s)
            self.stmts(s, s.stmts, i2)
        if s.procs:
            self.L([pad, k("contains")], "contains", s)
            for p in s.procs:
                self.scope(p, i2, s.name)
        if s.kind in ("sub", "fun"):
            endw = st.end(kwd, "X", allow_bare=True)
            if endw.endswith(" X"):
                s.eline = self.L([pad, endw[:-1], (s.name, s.ent, "procend")], "close-scope", s)
            else:
                s.eline = self.L([pad, endw], "close-scope", s)
        else:
            s.eline = self.L([pad, st.end(kwd, s.name, allow_bare=True)], "close-scope", s)
        knd = {"module": "module", "program": "program", "sub": "procedure", "fun": "procedure"}[s.kind]
        self.outline.append(Node(knd, s.name, container, self.cur, s.sline, s.eline))


def gen_workspace(rng, style=None, **opts):
    g = Gen(rng, **opts)
    prog, ext = g.build()
    st = style or Style(None, plain=True)
    st.tight = g.o["tight"]
    r = Renderer(g, st)
    order = []
    if g.split_files:
        for m in g.mods:
            sub = "" if rng.random() < 0.7 else rng.choice(["sub/", "lib/"])
            fn = f"{sub}{m.name}.f90"
            r.begin(fn)
            r.scope(m, 0)
            order.append(fn)
    else:
        r.begin("mods.f90")
        for m in g.mods:
            r.scope(m, 0)
            r.L([""])
        order.append("mods.f90")
    r.begin("main.f90")
    r.scope(prog, 0)
    order.append("main.f90")
    if ext is not None:
        r.begin("ext.f90")
        r.scope(ext, 0)
        order.append("ext.f90")
    w = W()
    w.gen, w.mods, w.prog, w.ext = g, g.mods, prog, ext
    w.files = {f: "\n".join(ls) + "\n" for f, ls in r.files.items()}
    w.lines = r.files
    w.occs, w.outline, w.roles, w.order = r.occs, r.outline, r.roles, order
    w.scopes = []

    def walk(s):
        w.scopes.append(s)
        for p in s.procs:
            walk(p)
    for m in g.mods:
        walk(m)
    walk(prog)
    if ext is not None:
        walk(ext)
    return w


# ---------------------------------------------------------------------------------------------
# oracle guards


def have_gfortran():
    return shutil.which("gfortran") is not None


def gfortran_check(files, order, std="f2018", extra=()):
    """(ok, stderr) — compiles in dependency order with -fsyntax-only"""
    d = tempfile.mkdtemp(prefix="vf-gf-")
    try:
        for fn, t in files.items():
            p = os.path.join(d, fn)
            os.makedirs(os.path.dirname(p), exist_ok=True)
            with open(p, "w") as fh:
                fh.write(t)
        p = subprocess.run(["gfortran", "-fsyntax-only", f"-std={std}", "-J", d] + list(extra) + list(order), cwd=d, capture_output=True, text=True, timeout=60)
        return p.returncode == 0, p.stderr
    finally:
        shutil.rmtree(d, ignore_errors=True)
