"""Driver: shards, watchdogs, seeds, verdicts, evidence, known findings, replay.

A property module `vf.props.cNN` provides

    PROP   = "C07"
    LEVEL  = "exploration"
    RULE   = "<how cases are generated / what distinct means>"
    ASSUME = ["..."]
    def plan(tier) -> {"ncases": int, "nshards": int, "budget_s": float, "stall_s": float, "floor": int}
    def run_case(ctx, i, rng) -> Result          (one *case* may hold thousands of monitored events)
    def replay(ctx, witness) -> Result           (optional; default re-runs the case index)

`Result` (see class below) carries violations (each with a mechanism key and a
witness), monitor counters, the distinct-case fingerprints and samples.

Verdicts are three valued: exit 0 (held on what was observed), exit 1 + VIOLATION
line, exit 2 + INCONCLUSIVE line (deciding monitor observed less than its floor).
"""
from __future__ import annotations

import hashlib
import importlib
import json
import os
import random
import subprocess
import sys
import time
import traceback

HERE = os.path.dirname(os.path.dirname(os.path.abspath(__file__)))
REPO = os.environ.get("VERIF_REPO", "/repo")
PY = sys.executable


def repo_first():
    """Make `import fortls` resolve to the tree under test."""
    if sys.path[0] != REPO:
        sys.path.insert(0, REPO)
    deps = os.path.join(HERE, ".deps")
    if os.path.isdir(deps) and deps not in sys.path:
        sys.path.append(deps)


def tree_hash() -> str:
    h = hashlib.sha256()
    base = os.path.join(REPO, "fortls")
    for dp, dn, fn in sorted(os.walk(base)):
        dn.sort()
        for f in sorted(fn):
            if f.endswith((".py", ".json")):
                p = os.path.join(dp, f)
                h.update(os.path.relpath(p, base).encode())
                with open(p, "rb") as fh:
                    h.update(fh.read())
    return h.hexdigest()[:16]


class Result:
    """What one case observed."""

    def __init__(self):
        self.violations: list[dict] = []  # {key, what, witness}
        self.stats: dict[str, int] = {}
        self.distinct: set[str] = set()
        self.samples: list = []
        self.inconclusive: list[str] = []
        self.kinds: dict[str, int] = {}

    def count(self, name: str, n: int = 1):
        self.stats[name] = self.stats.get(name, 0) + n

    def kind(self, name: str, n: int = 1):
        """histogram of observed event/outcome kinds (monitor observations)"""
        self.kinds[name] = self.kinds.get(name, 0) + n

    def seen(self, *parts):
        """register a distinct non-trivial case fingerprint"""
        s = "\x1f".join(str(p) for p in parts)
        self.distinct.add(hashlib.blake2b(s.encode("utf-8", "replace"), digest_size=8).hexdigest())

    def violation(self, key: str, what: str, witness):
        # keep at most a handful of witnesses per key per case
        n = sum(1 for v in self.violations if v["key"] == key)
        self.count("violations_raw")
        if n < 3:
            self.violations.append({"key": key, "what": what, "witness": witness})

    def sample(self, s, limit=2):
        if len(self.samples) < limit:
            self.samples.append(s)

    def to_json(self):
        return {
            "v": self.violations,
            "s": self.stats,
            "d": sorted(self.distinct),
            "x": self.samples,
            "i": self.inconclusive,
            "k": self.kinds,
        }


class Ctx:
    def __init__(self, prop, tier, seed, shard=0, nshards=1):
        self.prop, self.tier, self.seed, self.shard, self.nshards = prop, tier, seed, shard, nshards
        self.cache = {}
        self.markfile = None

    def mark(self, obj):
        """remember the input being processed, so that a watchdog kill can name it"""
        if self.markfile:
            with open(self.markfile, "w") as fh:
                json.dump(obj, fh, default=str)

    def rng(self, i) -> random.Random:
        h = hashlib.sha256(f"{self.seed}:{self.prop}:{i}".encode()).digest()
        return random.Random(int.from_bytes(h[:8], "big"))


def die_with_parent():
    """this process, and every process it forks later (fortls's worker pool), is killed when its parent dies"""
    try:
        import ctypes
        import signal

        libc = ctypes.CDLL("libc.so.6", use_errno=True)
        libc.prctl(1, signal.SIGKILL)
        os.register_at_fork(after_in_child=lambda: libc.prctl(1, signal.SIGKILL))
    except Exception:
        pass


def kill_tree(p):
    """kill a worker and everything in its process group (pool children)"""
    import signal

    try:
        os.killpg(p.pid, signal.SIGKILL)
    except (ProcessLookupError, PermissionError):
        pass
    try:
        p.kill()
    except Exception:
        pass
    p.wait()


def load_prop(prop: str):
    return importlib.import_module(f"vf.props.{prop.lower()}")


# ----------------------------------------------------------------------------------------------
# worker


def worker_main(argv):
    prop, tier, seed, shard, nshards, out, start, only = argv[:8]
    seed, shard, nshards, start = int(seed), int(shard), int(nshards), int(start)
    repo_first()
    import faulthandler

    faulthandler.enable()
    die_with_parent()
    cov = None
    if os.environ.get("VF_COVERAGE"):
        # diagnostic only (tools/coverage_report.py): which fortls lines does this check's workload reach at all?
        import coverage
        cov = coverage.Coverage(data_file=f"{os.environ['VF_COVERAGE']}.{prop}.{shard}.{os.getpid()}", source=[os.path.join(REPO, "fortls")], branch=True)
        cov.start()
    mod = load_prop(prop)
    ctx = Ctx(prop, tier, seed, shard, nshards)
    ctx.markfile = out + ".mark"
    plan = mod.plan(tier)
    deadline = float(os.environ.get("VF_DEADLINE") or (time.time() + plan.get("budget_s", 60)))
    fh = open(out, "a", buffering=1)
    if only != "-":
        idx = [int(only)]
    else:
        idx = [i for i in range(shard, plan["ncases"], nshards) if i >= start]
    for i in idx:
        if only == "-" and time.time() > deadline:
            fh.write(f"T {i}\n")
            break
        fh.write(f"B {i}\n")
        faulthandler.dump_traceback_later(plan.get("stall_s", 60 if tier == "quick" else 240) * 0.8, exit=False)
        t0 = time.process_time()
        try:
            res = mod.run_case(ctx, i, ctx.rng(i))
        except Exception:
            res = Result()
            res.inconclusive.append("harness-exception: " + traceback.format_exc()[-1500:])
        faulthandler.cancel_dump_traceback_later()
        res.count("cpu_ms", int((time.process_time() - t0) * 1000))
        fh.write(f"E {i} " + json.dumps(res.to_json(), default=str) + "\n")
    if cov is not None:
        cov.stop()
        cov.save()
    fh.write("D\n")
    fh.close()


# ----------------------------------------------------------------------------------------------
# driver


def load_known():
    """known_findings.txt: `known: property=<id> key=<key> <what>` and `fixed: property=<id> <commit> <what>`"""
    out = {}
    p = os.path.join(HERE, "known_findings.txt")
    if os.path.exists(p):
        for line in open(p):
            line = line.strip()
            if not line or line.startswith("#"):
                continue
            status, _, rest = line.partition(":")
            status = status.strip()
            parts = rest.strip().split(" ", 2)
            if status == "known" and len(parts) >= 2 and parts[0].startswith("property=") and parts[1].startswith("key="):
                prop, key = parts[0][9:], parts[1][4:]
                out[(prop, key)] = {"status": "known", "what": parts[2] if len(parts) > 2 else ""}
            # `fixed:` entries suppress nothing and are not loaded
    return out


def run_check(prop: str, tier: str, seed: int) -> int:
    t_start = time.time()
    mod = load_prop(prop)
    plan = mod.plan(tier)
    nshards = min(plan.get("nshards", 16), plan["ncases"], os.cpu_count() or 4)
    stall_s = plan.get("stall_s", 60 if tier == "quick" else 240)
    work = os.path.join(HERE, ".work", f"{prop}-{os.getpid()}")
    os.makedirs(work, exist_ok=True)
    env = dict(os.environ)
    env["PYTHONPATH"] = REPO + os.pathsep + HERE
    env["PYTHONHASHSEED"] = "0"
    env["VERIF_REPO"] = REPO
    if os.environ.get("VERIF_BUDGET_S"):
        # exploration aid: a shorter budget than the tier's (the floor then decides between held and inconclusive as usual)
        plan = dict(plan, budget_s=min(plan.get("budget_s", 60), float(os.environ["VERIF_BUDGET_S"])))
    env["VF_DEADLINE"] = str(t_start + plan.get("budget_s", 60))
    # every scratch workspace of this run lives under one directory that is removed at the end, also when shards were killed
    import tempfile
    run_tmp = tempfile.mkdtemp(prefix=f"vf-run-{prop}-")
    env["TMPDIR"] = run_tmp
    env["VERIF_TMP"] = run_tmp

    def spawn(shard, start, only="-"):
        out = os.path.join(work, f"s{shard}.{'all' if only == '-' else 'o' + only}.{start}.log")
        p = subprocess.Popen(
            [PY, "-B", "-m", "vf.core", "--worker", prop, tier, str(seed), str(shard), str(nshards), out, str(start), only],
            cwd=HERE, env=env, stdout=subprocess.DEVNULL, stderr=open(out + ".err", "w"), start_new_session=True,
        )
        return {"p": p, "out": out, "pos": 0, "last": time.time(), "open": None, "shard": shard, "done": False}

    procs = [spawn(s, 0) for s in range(nshards)]
    results = {}  # i -> json
    suspects = []  # case indices killed by the watchdog / crashed
    truncated = 0

    def drain(w):
        try:
            with open(w["out"]) as fh:
                fh.seek(w["pos"])
                data = fh.read()
        except FileNotFoundError:
            return
        if not data:
            return
        # only complete lines
        nl = data.rfind("\n")
        if nl < 0:
            return
        w["pos"] += len(data[: nl + 1].encode())
        for line in data[: nl + 1].splitlines():
            w["last"] = time.time()
            if line.startswith("B "):
                w["open"] = int(line[2:])
            elif line.startswith("E "):
                _, i, js = line.split(" ", 2)
                results[int(i)] = json.loads(js)
                w["open"] = None
            elif line.startswith("T "):
                nonlocal truncated
                truncated += 1
            elif line == "D":
                w["done"] = True

    active = list(procs)
    hard_deadline = time.time() + plan.get("budget_s", 60) * 3 + 120
    while active:
        time.sleep(0.05)
        for w in list(active):
            drain(w)
            rc = w["p"].poll()
            if rc is not None:
                drain(w)
                active.remove(w)
                if not w["done"] and w["open"] is not None:
                    # crashed inside a case: suspect, continue after it
                    suspects.append((w["open"], f"worker exit {rc}", w["out"] + ".err"))
                    active.append(spawn(w["shard"], w["open"] + 1))
                continue
            if time.time() - w["last"] > stall_s and w["open"] is not None or time.time() > hard_deadline:
                kill_tree(w["p"])
                drain(w)
                active.remove(w)
                if w["open"] is not None:
                    suspects.append((w["open"], "watchdog", w["out"] + ".err"))
                    if time.time() < hard_deadline:
                        active.append(spawn(w["shard"], w["open"] + 1))

    # re-run suspects alone (in parallel batches), each with a generous budget
    inconclusive = []
    hang_viol = []
    suspects = suspects[:64]
    for b0 in range(0, len(suspects), 16):
        batch = [(i, why, spawn(0, 0, only=str(i))) for i, why, _ in suspects[b0:b0 + 16]]
        t_end = time.time() + stall_s * 2
        for i, why, w in batch:
            try:
                w["p"].wait(timeout=max(1, t_end - time.time()))
            except subprocess.TimeoutExpired:
                kill_tree(w["p"])
            drain(w)
            if i in results:
                continue
            tail = ""
            try:
                tail = open(w["out"] + ".err").read()[-1500:]
            except OSError:
                pass
            mark = None
            try:
                mark = json.load(open(w["out"] + ".mark"))
            except (OSError, ValueError):
                pass
            if hasattr(mod, "on_stuck"):
                hang_viol.append(mod.on_stuck(i, why, tail, mark))
            else:
                inconclusive.append(f"case {i}: {why}; isolated re-run did not finish: {tail[-300:]}")

    # aggregate
    stats, kinds, distinct, samples, viols = {}, {}, set(), [], []
    for i in sorted(results):
        r = results[i]
        for k, v in r["s"].items():
            stats[k] = stats.get(k, 0) + v
        for k, v in r.get("k", {}).items():
            kinds[k] = kinds.get(k, 0) + v
        distinct.update(r["d"])
        if len(samples) < 5:
            samples.extend(r["x"][: 5 - len(samples)])
        for v in r["v"]:
            v["case"] = i
            viols.append(v)
        for m in r["i"]:
            inconclusive.append(f"case {i}: {m}")
    for v in hang_viol:
        if v:
            viols.append(v)

    known = load_known()
    new_viol, known_hits = [], {}
    for v in viols:
        k = known.get((prop, v["key"]))
        if k is not None and k.get("status") == "known":
            known_hits.setdefault(v["key"], [k, 0])[1] += 1
        else:
            new_viol.append(v)

    os.makedirs(os.path.join(HERE, "replays"), exist_ok=True)
    # evidence/ describes runs against /repo only; runs against a scratch tree (VERIF_REPO) go elsewhere
    evdir = os.path.join(HERE, "evidence") if os.path.realpath(REPO) == "/repo" else os.path.join(HERE, "replays", "evidence-scratch")
    os.makedirs(evdir, exist_ok=True)
    lines = []
    for key, (k, n) in sorted(known_hits.items()):
        lines.append(f"KNOWN-FINDING: property={prop} {key} {k.get('what', '')} (seen {n}x)")
    seen_keys = {}
    for v in new_viol:
        seen_keys.setdefault(v["key"], []).append(v)
    for key, vs in sorted(seen_keys.items()):
        v = vs[0]
        hid = hashlib.sha256(key.encode()).hexdigest()[:10]
        path = os.path.join("replays", f"{prop}-{hid}.json")
        with open(os.path.join(HERE, path), "w") as fh:
            json.dump({"property": prop, "tier": tier, "seed": seed, "case": v.get("case"), "key": key,
                       "what": v["what"], "witness": v["witness"], "occurrences": len(vs)}, fh, indent=1, default=str)
        lines.append(f"VIOLATION property={prop} replay={path}")
        lines.append(f"  key={key} :: {v['what'][:300]}")

    evaluations = stats.get("evaluations", 0)
    floor = plan.get("floor", 1)
    below_floor = evaluations < floor or len(distinct) < 2
    wall = time.time() - t_start
    cov = {
        "evaluations": evaluations,
        "distinct_nontrivial": len(distinct),
        "rule": mod.RULE,
        "samples": samples[:5] if samples else [],
        "cases_run": len(results),
        "cases_planned": plan["ncases"],
        "shards_truncated_by_time_budget": truncated,
        "monitor_counters": dict(sorted(stats.items())),
        "observed_kinds": dict(sorted(kinds.items())),
        "known_finding_hits": {k: n for k, (_, n) in known_hits.items()},
        "inconclusive_cases": len(inconclusive),
        "inconclusive_detail": inconclusive[:10],
        "tree_hash": tree_hash(),
        "repo": REPO,
        "verdict": "violated" if new_viol else ("inconclusive" if below_floor else "held-on-observed"),
    }
    if hasattr(mod, "finalize"):
        cov.update(mod.finalize(stats, kinds) or {})
    ev = {
        "property_id": prop,
        "tier": tier,
        "seed": seed,
        "level": mod.LEVEL,
        "coverage": cov,
        "assumptions": list(getattr(mod, "ASSUME", [])),
        "wall_s": round(wall, 2),
        "violations": len(seen_keys),
    }
    with open(os.path.join(evdir, f"{prop}.json"), "w") as fh:
        json.dump(ev, fh, indent=1, default=str)
    for ln in lines:
        print(ln)
    print(f"{prop} {tier} seed={seed}: evaluations={evaluations} distinct={len(distinct)} cases={len(results)}/{plan['ncases']} "
          f"violations={len(seen_keys)} known={len(known_hits)} inconclusive={len(inconclusive)} wall={wall:.1f}s")
    # clean work dir
    import shutil

    shutil.rmtree(work, ignore_errors=True)
    shutil.rmtree(run_tmp, ignore_errors=True)
    try:
        os.rmdir(os.path.join(HERE, ".work"))
    except OSError:
        pass
    if new_viol:
        return 1
    if below_floor:
        print(f"INCONCLUSIVE property={prop} deciding monitor observed {evaluations} < floor {floor}")
        return 2
    return 0


def run_replay(path: str) -> int:
    repo_first()
    d = json.load(open(path))
    prop = d["property"]
    mod = load_prop(prop)
    ctx = Ctx(prop, d.get("tier", "quick"), d.get("seed", 0))
    if hasattr(mod, "replay"):
        res = mod.replay(ctx, d["witness"])
    else:
        res = mod.run_case(ctx, d["case"], ctx.rng(d["case"]))
    known = load_known()
    for v in res.violations:
        if (prop, v["key"]) in known:
            print(f"KNOWN-FINDING: property={prop} {v['key']} (reproduced by the replay)")
    fresh = [v for v in res.violations if (prop, v["key"]) not in known]
    hit = [v for v in fresh if v["key"] == d["key"]] or fresh
    for v in hit[:3]:
        print(f"VIOLATION property={prop} replay={path}")
        print("  key=" + v["key"])
        print("  " + v["what"][:2000])
    if not hit:
        print(f"replay of {path}: no violation reproduced")
    return 1 if hit else 0


def main(argv=None):
    argv = list(sys.argv[1:] if argv is None else argv)
    if argv and argv[0] == "--worker":
        worker_main(argv[1:])
        return 0
    if argv and argv[0] == "--replay":
        return run_replay(argv[1])
    prop = argv[0].upper()
    tier = os.environ.get("VERIF_TIER", "quick")
    seed = int(os.environ.get("VERIF_SEED", "0") or 0)
    a = argv[1:]
    while a:
        if a[0] == "--tier":
            tier = a[1]; a = a[2:]
        elif a[0] == "--seed":
            seed = int(a[1]); a = a[2:]
        else:
            a = a[1:]
    return run_check(prop, tier, seed)


if __name__ == "__main__":
    sys.exit(main())
