"""A small model of C conditional inclusion + macro table, validated against the real `cpp`."""
from __future__ import annotations

import re
import shutil
import subprocess

TOK = re.compile(r"\s*(?:(\d+)|([A-Za-z_]\w*)|(&&|\|\||==|!=|<=|>=|[-+*/%<>!()]))")


class PPError(Exception):
    pass


def tokenize(s):
    out, pos = [], 0
    s = s.strip()
    while pos < len(s):
        m = TOK.match(s, pos)
        if not m or m.end() == pos:
            raise PPError("bad token at " + s[pos:pos + 10])
        if m.group(1) is not None:
            out.append(("num", int(m.group(1))))
        elif m.group(2) is not None:
            out.append(("id", m.group(2)))
        else:
            out.append(("op", m.group(3)))
        pos = m.end()
    return out


PREC = {"||": 1, "&&": 2, "==": 3, "!=": 3, "<": 4, ">": 4, "<=": 4, ">=": 4, "+": 5, "-": 5, "*": 6, "/": 6, "%": 6}


def evaluate(expr, defs, depth=0):
    """C semantics: undefined identifiers are 0, `defined X` / `defined(X)`, object-like macros expand to their integer bodies"""
    toks = tokenize(expr)
    pos = [0]

    def peek():
        return toks[pos[0]] if pos[0] < len(toks) else (None, None)

    def take():
        t = peek()
        pos[0] += 1
        return t

    def primary():
        k, v = take()
        if k == "num":
            return v
        if k == "id":
            if v == "defined":
                k2, v2 = take()
                if (k2, v2) == ("op", "("):
                    k3, v3 = take()
                    if k3 != "id":
                        raise PPError("defined( needs a name")
                    if take() != ("op", ")"):
                        raise PPError("missing )")
                    return int(v3 in defs)
                if k2 != "id":
                    raise PPError("defined needs a name")
                return int(v2 in defs)
            if v in defs:
                body = defs[v]
                if body is None or body.strip() == "":
                    raise PPError("empty macro in #if")
                if depth > 10:
                    raise PPError("deep")
                return evaluate(body, defs, depth + 1)
            return 0
        if (k, v) == ("op", "("):
            r = binary(0)
            if take() != ("op", ")"):
                raise PPError("missing )")
            return r
        if (k, v) == ("op", "!"):
            return int(not primary())
        if (k, v) == ("op", "-"):
            return -primary()
        if (k, v) == ("op", "+"):
            return primary()
        raise PPError(f"unexpected {v}")

    def binary(minp):
        lhs = primary()
        while True:
            k, v = peek()
            if k != "op" or v not in PREC or PREC[v] < minp:
                return lhs
            take()
            rhs = binary(PREC[v] + 1)
            if v == "||":
                lhs = int(bool(lhs) or bool(rhs))
            elif v == "&&":
                lhs = int(bool(lhs) and bool(rhs))
            elif v == "==":
                lhs = int(lhs == rhs)
            elif v == "!=":
                lhs = int(lhs != rhs)
            elif v == "<":
                lhs = int(lhs < rhs)
            elif v == ">":
                lhs = int(lhs > rhs)
            elif v == "<=":
                lhs = int(lhs <= rhs)
            elif v == ">=":
                lhs = int(lhs >= rhs)
            elif v == "+":
                lhs = lhs + rhs
            elif v == "-":
                lhs = lhs - rhs
            elif v == "*":
                lhs = lhs * rhs
            elif v in "/%":
                if rhs == 0:
                    raise PPError("division by zero")
                q = abs(lhs) // abs(rhs) * (1 if (lhs < 0) == (rhs < 0) else -1)
                lhs = q if v == "/" else lhs - rhs * q

    r = binary(0)
    if pos[0] != len(toks):
        raise PPError("trailing tokens")
    return r


DIRECTIVE = re.compile(r"\s*#\s*(if|ifdef|ifndef|elif|else|endif|define|undef)\b(.*)$")
DEFINE = re.compile(r"\s*(\w+)(\(([^)]*)\))?(?:\s+(.*))?$")


def run_model(lines, init_defs):
    """-> (set of active non-directive line indexes, final defs dict name -> body ('' for body-less; function-like as (params, body)))"""
    defs = dict(init_defs)
    stack = []  # [active_before, taken_any, currently_active]
    active = set()
    for n, line in enumerate(lines):
        m = DIRECTIVE.match(line)
        cur = all(s[2] for s in stack)
        if not m:
            if cur:
                active.add(n)
            continue
        d, rest = m.group(1), m.group(2)
        if d in ("if", "ifdef", "ifndef"):
            if cur:
                if d == "if":
                    v = bool(evaluate(rest, defs))
                elif d == "ifdef":
                    v = rest.strip() in defs
                else:
                    v = rest.strip() not in defs
            else:
                v = False
            stack.append([cur, v, v])
        elif d == "elif":
            s = stack[-1]
            if s[0] and not s[1]:
                v = bool(evaluate(rest, defs))
                s[1], s[2] = v, v
            else:
                s[2] = False
        elif d == "else":
            s = stack[-1]
            s[2] = s[0] and not s[1]
            s[1] = True
        elif d == "endif":
            stack.pop()
        elif d == "define" and cur:
            dm = DEFINE.match(rest)
            name, params, body = dm.group(1), dm.group(3), (dm.group(4) or "").strip()
            defs[name] = (params, body) if dm.group(2) else body
        elif d == "undef" and cur:
            defs.pop(rest.strip(), None)
    return active, defs


def have_cpp():
    return shutil.which("cpp") is not None


def run_cpp(lines, init_defs, names):
    """the real preprocessor: -> (set of active marker ids, {name: body}) ; markers are identifiers MKk_ on code lines"""
    text = "\n".join(lines) + "\n"
    dargs = [f"-D{k}={v}" if v != "" else f"-D{k}=" for k, v in init_defs.items()]
    p = subprocess.run(["cpp", "-P", "-undef", "-nostdinc", "-w"] + dargs + ["-"], input=text, capture_output=True, text=True, timeout=20)
    if p.returncode != 0:
        raise PPError("cpp: " + p.stderr[:200])
    act = set(int(x) for x in re.findall(r"\bMK(\d+)_\b", p.stdout))
    q = subprocess.run(["cpp", "-dM", "-undef", "-nostdinc", "-w"] + dargs + ["-"], input=text, capture_output=True, text=True, timeout=20)
    table = {}
    for l in q.stdout.splitlines():
        m = re.match(r"#define (\w+)(\([^)]*\))?\s?(.*)$", l)
        if m and m.group(1) in names:
            table[m.group(1)] = (m.group(2)[1:-1], m.group(3).strip()) if m.group(2) else m.group(3).strip()
    return act, table
