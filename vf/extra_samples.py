"""Hand-written free-form programs with statement forms that neither the repository's samples nor the generated model contain
(defined-operator / defined-assignment interfaces, generic operator bindings, user-defined .op., labelled DO with a shared label).
Used by C13 as additional re-layout subjects; every one is accepted by gfortran -std=gnu."""

EXTRA = {
    "x_opint.f90": """module x_opint
  implicit none
  private
  public :: vec, operator(+), assignment(=), operator(.dot.), norm1
  type :: vec
    real :: x = 0.0
    real :: y = 0.0
  end type vec
  interface operator(+)
    module procedure add_vec
  end interface operator(+)
  interface assignment(=)
    module procedure set_vec
  end interface assignment(=)
  interface operator(.dot.)
    module procedure dot_vec
  end interface
  interface norm1
    module procedure norm_vec
  end interface norm1
contains
  function add_vec(a, b) result(c)
    type(vec), intent(in) :: a, b
    type(vec) :: c
    c%x = a%x + b%x
    c%y = a%y + b%y
  end function add_vec
  subroutine set_vec(a, r)
    type(vec), intent(out) :: a
    real, intent(in) :: r
    a%x = r
    a%y = r
  end subroutine set_vec
  function dot_vec(a, b) result(d)
    type(vec), intent(in) :: a, b
    real :: d
    d = a%x * b%x + a%y * b%y
  end function dot_vec
  function norm_vec(a) result(d)
    type(vec), intent(in) :: a
    real :: d
    d = abs(a%x) + abs(a%y)
  end function norm_vec
end module x_opint

program x_opint_use
  use x_opint, only: vec, operator(+), assignment(=), operator(.dot.), norm1
  implicit none
  type(vec) :: p, q, s
  real :: d
  p = 1.0
  q = 2.0
  s = p + q
  d = p .dot. q
  d = d + norm1(s)
  print *, d
end program x_opint_use
""",
    "x_opbind.f90": """module x_opbind
  implicit none
  type :: acc
    integer :: n = 0
  contains
    procedure :: plus_acc
    procedure, pass(b) :: int_plus_acc
    procedure :: copy_acc
    generic :: operator(+) => plus_acc, int_plus_acc
    generic :: assignment(=) => copy_acc
  end type acc
contains
  function plus_acc(a, b) result(c)
    class(acc), intent(in) :: a
    type(acc), intent(in) :: b
    type(acc) :: c
    c%n = a%n + b%n
  end function plus_acc
  function int_plus_acc(k, b) result(c)
    integer, intent(in) :: k
    class(acc), intent(in) :: b
    type(acc) :: c
    c%n = k + b%n
  end function int_plus_acc
  subroutine copy_acc(a, b)
    class(acc), intent(inout) :: a
    type(acc), intent(in) :: b
    a%n = b%n
  end subroutine copy_acc
  subroutine shared_label(m, total)
    integer, intent(in) :: m
    integer, intent(out) :: total
    integer :: i, j
    total = 0
    do 10 i = 1, m
      do 10 j = 1, m
        total = total + i * j
 10 continue
  end subroutine shared_label
  subroutine after_loops(t)
    type(acc), intent(inout) :: t
    type(acc) :: u
    u = t + t
    t = 2 + u
  end subroutine after_loops
end module x_opbind
""",
}
