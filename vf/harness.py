"""D-in: the real LangServer driven in-process through a recording connection (the client boundary)."""
from __future__ import annotations

import json
import os
import shutil
import tempfile

from vf.core import repo_first

repo_first()

from fortls.interface import cli  # noqa: E402
from fortls.langserver import LangServer  # noqa: E402
from fortls.jsonrpc import path_to_uri, path_from_uri  # noqa: E402,F401

POSITIONAL = [
    "textDocument/hover",
    "textDocument/definition",
    "textDocument/implementation",
    "textDocument/references",
    "textDocument/documentHighlight",
    "textDocument/rename",
    "textDocument/signatureHelp",
    "textDocument/completion",
    "textDocument/codeAction",
]


class Recorder:
    """Implements exactly what LangServer calls on its connection; every outgoing message is an event."""

    def __init__(self):
        self.out = []  # (kind, ...) kind in resp/err/notif
        self.inbox = []  # scripted read_message for run()

    def write_response(self, rid, result):
        self.out.append(("resp", rid, result))

    def write_error(self, rid, code, message, data=None):
        self.out.append(("err", rid, code, message, data))

    def send_notification(self, method, params):
        self.out.append(("notif", method, params))

    def read_message(self):
        if not self.inbox:
            raise EOFError()
        return self.inbox.pop(0)


def scratch_root() -> str:
    base = os.environ.get("VERIF_TMP") or tempfile.gettempdir()
    return tempfile.mkdtemp(prefix="vf-", dir=base)


class Workspace:
    """A directory of files that exists only for the duration of a case."""

    def __init__(self, files: dict[str, str | bytes] | None = None, root: str | None = None):
        self.root = os.path.realpath(root or scratch_root())
        for rel, text in (files or {}).items():
            self.write(rel, text)

    def path(self, rel):
        return os.path.join(self.root, rel)

    def uri(self, rel):
        return path_to_uri(self.path(rel))

    def write(self, rel, text):
        p = self.path(rel)
        os.makedirs(os.path.dirname(p), exist_ok=True)
        if isinstance(text, bytes):
            with open(p, "wb") as fh:
                fh.write(text)
        else:
            with open(p, "w", encoding="utf-8", newline="") as fh:
                fh.write(text)
        return p

    def close(self):
        shutil.rmtree(self.root, ignore_errors=True)

    def __enter__(self):
        return self

    def __exit__(self, *a):
        self.close()


def reset_logging():
    """forget the logging configuration of earlier in-process servers: `logging.basicConfig` is a no-op once the root logger has a handler, so
    without this only the first server of a process would ever open its log file (a fresh process per session is what users run)"""
    import logging
    for lg in (logging.root, logging.getLogger("fortls.langserver")):
        for h in list(lg.handlers):
            lg.removeHandler(h)
            try:
                h.close()
            except Exception:
                pass


class Server:
    def __init__(self, args=None, nthreads=1):
        argv = list(args or [])
        if "--nthreads" not in argv:
            argv += ["--nthreads", str(nthreads)]
        if "--disable_autoupdate" not in argv:
            argv += ["--disable_autoupdate"]
        self.settings = vars(cli("fortls").parse_args(argv))
        self.conn = Recorder()
        self.ls = LangServer(self.conn, self.settings)
        self._id = 0
        self.monitors = []  # callables(server, msg_in, new_out_events)

    # -- client boundary -----------------------------------------------------------------
    def send(self, msg):
        """Feed one message; return the events it produced. Call event is logged before, return after."""
        n = len(self.conn.out)
        self.ls.handle(msg)
        # emulate the run loop's flushing of queued messages
        for message in self.ls.post_messages:
            self.ls.post_message(message[1], message[0])
        self.ls.post_messages = []
        new = self.conn.out[n:]
        for m in self.monitors:
            m(self, msg, new)
        return new

    def request(self, method, params, rid=None):
        if rid is None:
            self._id += 1
            rid = self._id
        ev = self.send({"jsonrpc": "2.0", "id": rid, "method": method, "params": params})
        for e in ev:
            if e[0] in ("resp", "err") and e[1] == rid:
                return e
        return ("none", rid, None)

    def result(self, method, params):
        e = self.request(method, params)
        if e[0] == "resp":
            return e[2]
        raise ServerError(method, params, e)

    def notify(self, method, params):
        return self.send({"jsonrpc": "2.0", "method": method, "params": params})

    def initialize(self, root):
        return self.request("initialize", {"rootPath": root, "capabilities": {}})

    # -- conveniences --------------------------------------------------------------------
    def pos(self, uri, line, ch, **extra):
        p = {"textDocument": {"uri": uri}, "position": {"line": line, "character": ch}}
        p.update(extra)
        return p

    def did_open(self, uri, text=None):
        td = {"uri": uri}
        if text is not None:
            td["text"] = text
        return self.notify("textDocument/didOpen", {"textDocument": td})

    def did_save(self, uri):
        return self.notify("textDocument/didSave", {"textDocument": {"uri": uri}})

    def did_close(self, uri):
        return self.notify("textDocument/didClose", {"textDocument": {"uri": uri}})

    def did_change(self, uri, changes):
        return self.notify("textDocument/didChange", {"textDocument": {"uri": uri}, "contentChanges": changes})

    def diagnostics(self, uri):
        """publishDiagnostics for `uri` via an idempotent didSave; returns list or None (+ raw events)."""
        ev = self.did_save(uri)
        out = None
        for e in ev:
            if e[0] == "notif" and e[1] == "textDocument/publishDiagnostics" and e[2].get("uri") == uri:
                out = e[2]["diagnostics"]
        return out, ev

    def lines_of(self, path):
        f = self.ls.workspace.get(path)
        if f is not None:
            return list(f.contents_split)
        return None


class ServerError(Exception):
    def __init__(self, method, params, event):
        super().__init__(f"{method} -> {event[:4]}")
        self.method, self.params, self.event = method, params, event


def start(files: dict, args=None, nthreads=1):
    ws = Workspace(files)
    srv = Server(args, nthreads=nthreads)
    ev = srv.initialize(ws.root)
    return ws, srv, ev


def jdump(x, limit=4000):
    s = json.dumps(x, default=str, ensure_ascii=False)
    return s if len(s) <= limit else s[:limit] + "…"
