"""Start the unmodified fortls server; with FORTLS_VERIF set (a JSON object) install monitors first.

  {"audit": "<path>"}             log audit events (also from pool workers) to <path> through an O_APPEND fd
  {"listdir_seed": N}             permute os.listdir / os.walk results deterministically by N
  {"worker_delay_seed": N}        random short sleeps in LangServer.file_init (completion order of workers varies)
With FORTLS_VERIF unset this is exactly `python -m fortls`.
"""
import json
import os
import sys

repo = os.environ.get("VERIF_REPO", "/repo")
if sys.path[0] != repo:
    sys.path.insert(0, repo)

try:  # the server and its pool children die with the harness process that started them
    import ctypes
    import signal

    _libc = ctypes.CDLL("libc.so.6", use_errno=True)
    _libc.prctl(1, signal.SIGKILL)
    os.register_at_fork(after_in_child=lambda: _libc.prctl(1, signal.SIGKILL))
except Exception:
    pass

cfg = os.environ.get("FORTLS_VERIF")
if cfg:
    cfg = json.loads(cfg)
    here = os.path.dirname(os.path.dirname(os.path.abspath(__file__)))
    if here not in sys.path:
        sys.path.append(here)
    from vf import inproc_monitors

    inproc_monitors.install(cfg)

from fortls import main  # noqa: E402

sys.argv = ["fortls"] + sys.argv[1:]
main()
