"""D-sub: the unmodified `python -m fortls` as a subprocess, spoken to with our own strict LSP framer.

`run_server.py` optionally installs in-process monitors (audit hook, listing-order permutation, worker delays)
when FORTLS_VERIF is set, then calls fortls.main().
"""
from __future__ import annotations

import json
import os
import re
import select
import subprocess
import sys
import time

from vf.core import REPO, HERE

HEADER_RE = re.compile(rb"^([A-Za-z0-9-]+): (.*)$")


class FramingError(Exception):
    pass


def frame(obj, header_order="cl-first", ensure_ascii=False, extra_header=False) -> bytes:
    body = json.dumps(obj, ensure_ascii=ensure_ascii, separators=(",", ":")).encode("utf-8")
    cl = b"Content-Length: " + str(len(body)).encode() + b"\r\n"
    ct = b"Content-Type: application/vscode-jsonrpc; charset=utf-8\r\n"
    xh = b"X-Unknown-Header: 1\r\n" if extra_header else b""
    if header_order == "cl-first":
        head = cl + ct + xh
    elif header_order == "ct-first":
        head = ct + xh + cl
    elif header_order == "cl-only":
        head = xh + cl
    else:
        raise ValueError(header_order)
    return head + b"\r\n" + body


def parse_stream(data: bytes):
    """Strictly parse a byte stream of LSP messages. Returns (messages, leftover, errors)."""
    msgs, errors = [], []
    pos = 0
    while pos < len(data):
        end = data.find(b"\r\n\r\n", pos)
        if end < 0:
            break
        head = data[pos:end]
        length = None
        for line in head.split(b"\r\n"):
            m = HEADER_RE.match(line)
            if not m:
                errors.append(f"malformed header line {line[:60]!r} at byte {pos}")
                continue
            if m.group(1).lower() == b"content-length":
                try:
                    length = int(m.group(2))
                except ValueError:
                    errors.append(f"Content-Length not an integer: {m.group(2)[:30]!r}")
        if length is None:
            errors.append(f"no Content-Length in header block at byte {pos}: {head[:80]!r}")
            return msgs, data[pos:], errors
        body = data[end + 4:end + 4 + length]
        if len(body) < length:
            break  # incomplete
        try:
            text = body.decode("utf-8")
            obj = json.loads(text)
            # strict JSON: no NaN/Infinity
            json.dumps(obj, allow_nan=False)
            msgs.append(obj)
        except Exception as e:  # noqa
            errors.append(f"body of {length} bytes at byte {end + 4} is not strict UTF-8 JSON ({type(e).__name__}: {str(e)[:80]}): {body[:80]!r}")
            # try to resynchronise on the next header
            nxt = data.find(b"Content-Length:", end + 4)
            if nxt < 0:
                return msgs, b"", errors
            pos = nxt
            continue
        pos = end + 4 + length
        # what follows must be a header or EOF
        if pos < len(data) and not data[pos:pos + 8].lower().startswith(b"content-"):
            errors.append(f"bytes after a {length}-byte body do not start a header: {data[pos:pos + 40]!r} (Content-Length wrong?)")
            nxt = data.find(b"Content-Length:", pos)
            if nxt < 0:
                return msgs, b"", errors
            pos = nxt
    return msgs, data[pos:], errors


class SubServer:
    def __init__(self, args=None, env_extra=None, hashseed="0", cwd=None, monitors=None, stderr_path=None):
        env = dict(os.environ)
        env["PYTHONPATH"] = REPO + os.pathsep + HERE
        env["PYTHONHASHSEED"] = str(hashseed)
        env["PYTHONDONTWRITEBYTECODE"] = "1"
        if monitors:
            env["FORTLS_VERIF"] = json.dumps(monitors)
        else:
            env.pop("FORTLS_VERIF", None)
        env.update(env_extra or {})
        argv = [sys.executable, "-B", os.path.join(HERE, "vf", "run_server.py")] + list(args or ["--disable_autoupdate", "--nthreads", "2"])
        self.stderr_path = stderr_path
        self.errf = open(stderr_path, "wb") if stderr_path else subprocess.DEVNULL
        self.p = subprocess.Popen(argv, stdin=subprocess.PIPE, stdout=subprocess.PIPE, stderr=self.errf, env=env, cwd=cwd, bufsize=0, start_new_session=True)
        self.buf = b""
        self.raw = b""
        self.msgs = []
        self.errors = []

    def write(self, data: bytes, chunks=None, pause=0.0):
        """write bytes, optionally split at the given offsets with a flush (and sleep) between pieces"""
        if not chunks:
            self.p.stdin.write(data)
            self.p.stdin.flush()
            return
        prev = 0
        for c in list(chunks) + [len(data)]:
            if c <= prev:
                continue
            self.p.stdin.write(data[prev:c])
            self.p.stdin.flush()
            if pause:
                time.sleep(pause)
            prev = c

    def send(self, obj, **kw):
        self.write(frame(obj, **kw))

    def pump(self, timeout=0.0):
        """read what is available; waits at most `timeout` for the first chunk, returns as soon as something was read"""
        fd = self.p.stdout.fileno()
        r, _, _ = select.select([fd], [], [], max(0.0, timeout))
        if not r:
            return
        chunk = os.read(fd, 65536)
        if not chunk:
            return
        self.raw += chunk
        self.buf += chunk
        msgs, self.buf, errs = parse_stream(self.buf)
        self.msgs += msgs
        self.errors += errs

    def wait_for(self, pred, timeout=20.0):
        t_end = time.time() + timeout
        seen = 0
        while time.time() < t_end:
            for m in self.msgs[seen:]:
                if pred(m):
                    return m
            seen = len(self.msgs)
            if self.p.poll() is not None:
                self.pump(0.2)
                for m in self.msgs[seen:]:
                    if pred(m):
                        return m
                return None
            self.pump(0.05)
        return None

    def request(self, rid, method, params, timeout=20.0, **kw):
        self.send({"jsonrpc": "2.0", "id": rid, "method": method, "params": params}, **kw)
        return self.wait_for(lambda m: "method" not in m and m.get("id") == rid, timeout)

    def notify(self, method, params, **kw):
        self.send({"jsonrpc": "2.0", "method": method, "params": params}, **kw)

    def alive(self):
        return self.p.poll() is None

    def finish(self, timeout=10.0):
        """send exit, wait for termination; returns return code (None = had to kill)"""
        try:
            self.notify("exit", None)
            self.p.stdin.close()
        except (BrokenPipeError, OSError):
            pass
        try:
            rc = self.p.wait(timeout=timeout)
        except subprocess.TimeoutExpired:
            self._killpg()
            rc = None
        try:
            rest = self.p.stdout.read()
            if rest:
                self.raw += rest
                self.buf += rest
                msgs, self.buf, errs = parse_stream(self.buf)
                self.msgs += msgs
                self.errors += errs
        except Exception:
            pass
        if self.errf is not subprocess.DEVNULL:
            self.errf.close()
        return rc

    def _killpg(self):
        import signal
        try:
            os.killpg(self.p.pid, signal.SIGKILL)
        except (ProcessLookupError, PermissionError):
            pass
        try:
            self.p.kill()
        except Exception:
            pass
        self.p.wait()

    def kill(self):
        if self.p.poll() is None:
            self._killpg()
        else:
            import signal
            try:  # stray pool children of a server that already exited
                os.killpg(self.p.pid, signal.SIGKILL)
            except (ProcessLookupError, PermissionError):
                pass
        if self.errf is not subprocess.DEVNULL:
            try:
                self.errf.close()
            except Exception:
                pass
