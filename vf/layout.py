"""Meaning-preserving re-layouts of free-form Fortran text with token/line maps (for C13, C14).

lex(text) -> list of Line objects; each code Line holds tokens [(kind, text)] with kinds
  ws, id, num, str, op, amp, semi; plus an optional trailing comment.  Lines that the lexer does not fully understand
  (continuation lines, preprocessor lines, lines inside a continued statement) are `opaque` and never edited.
A Layout keeps, for every output line, the set of original lines it stems from, and for every identifier token its new
position, so that dumps can be compared modulo the transformation.
"""
from __future__ import annotations

import re

TOKEN = re.compile(
    r"""(?P<ws>[ \t]+)
      |(?P<str>'(?:[^']|'')*'|"(?:[^"]|"")*")
      |(?P<num>(?:\d+\.\d*|\.\d+|\d+)(?:[edED][+-]?\d+)?(?:_\w+)?)
      |(?P<dotop>\.[A-Za-z]+\.)
      |(?P<id>[A-Za-z_][\w$]*)
      |(?P<op>=>|==|/=|<=|>=|\*\*|//|\(/|/\)|::|[-+*/=<>(),:%\[\]])
      |(?P<semi>;)
      |(?P<amp>&)
      |(?P<bad>.)""",
    re.X,
)

DOC_START = ("!>", "!<", "!!", "!$")


class Line:
    def __init__(self, no, raw):
        self.no = no  # original line number
        self.raw = raw
        self.kind = "code"  # blank | comment | pp | code
        self.opaque = False
        self.tokens = []  # (kind, text, orig_col)
        self.comment = ""  # trailing comment incl. '!'
        self.stem = {no}


def lex(text):
    raw_lines = re.split(r"\r\n|\n|\r", text)
    if raw_lines and raw_lines[-1] == "":
        raw_lines.pop()
    lines = []
    cont = False
    for n, raw in enumerate(raw_lines):
        ln = Line(n, raw)
        st = raw.strip()
        if st == "":
            ln.kind = "blank"
            ln.opaque = cont
        elif st.startswith("#"):
            ln.kind = "pp"
            ln.opaque = True
        elif st.startswith("!"):
            ln.kind = "comment"
            ln.opaque = cont
        else:
            pos = 0
            ok = True
            toks = []
            while pos < len(raw):
                if raw[pos] == "!":
                    ln.comment = raw[pos:]
                    break
                m = TOKEN.match(raw, pos)
                k = m.lastgroup
                if k == "bad" or (k == "str" and False):
                    ok = False
                    break
                # an unterminated string shows up as a 'bad' quote
                toks.append(("id" if k == "id" else ("op" if k == "dotop" else k), m.group(), pos))
                pos = m.end()
            ln.tokens = toks
            has_amp = any(t[0] == "amp" for t in toks)
            starts_amp = bool(toks) and [t for t in toks if t[0] != "ws"][:1] and [t for t in toks if t[0] != "ws"][0][0] == "amp"
            if not ok or has_amp or cont or starts_amp:
                ln.opaque = True
            # continuation state
            code = [t for t in toks if t[0] != "ws"]
            cont_here = bool(code) and code[-1][0] == "amp" if ok else raw.split("!")[0].rstrip().endswith("&")
            if cont and not code:
                cont_here = True
            cont = cont_here
            lines.append(ln)
            continue
        lines.append(ln)
    return lines


def idents(lines):
    """[(line_index_in_list, token_index, name, orig_line, orig_col)] of identifier tokens on non-opaque code lines"""
    out = []
    for i, ln in enumerate(lines):
        if ln.kind == "code" and not ln.opaque:
            for j, t in enumerate(ln.tokens):
                if t[0] == "id":
                    out.append((i, j, t[1], ln.no, t[2]))
    return out


KEYWORD_FIRST = re.compile(r"^\s*(include)\b", re.I)


class Layout:
    """result of rendering: text, stem sets per output line, new positions of identifier tokens"""

    def __init__(self):
        self.out = []  # output raw lines
        self.stem = []  # set of original line numbers per output line (empty for inserted lines)
        self.pos = {}  # (orig_line, orig_col) -> (new_line, new_col)

    def text(self, eol="\n"):
        return eol.join(self.out) + eol


SAFE_FIRST = {"integer", "real", "complex", "logical", "character", "double", "call", "use", "print", "write"}
STRUCT_FIRST = {"module", "submodule", "program", "subroutine", "function", "interface", "abstract", "contains", "end", "endif", "enddo", "endmodule",
                "endsubroutine", "endfunction", "endprogram", "endtype", "endinterface", "block", "do", "if", "else", "elseif", "select", "case", "associate",
                "where", "elsewhere", "forall", "procedure", "generic", "final", "import", "implicit", "private", "public", "recursive", "pure", "elemental",
                "impure", "enum", "enumerator", "critical", "include", "return", "stop", "cycle", "exit", "goto", "continue", "format", "entry", "data", "namelist",
                "common", "equivalence", "save", "external", "intrinsic", "parameter", "dimension", "allocatable", "pointer", "target", "optional", "intent", "class"}


def statement_is_safe(ln):
    """declarations, assignments, CALL and USE statements: the forms whose re-layout the conservative class exercises"""
    code = [t for t in ln.tokens if t[0] != "ws"]
    if not code or code[0][0] != "id":
        return False
    first = code[0][1].lower()
    if any(t[0] == "id" and t[1].lower() in ("function", "subroutine") for t in code):
        return False  # typed function headers start like a declaration
    if first in SAFE_FIRST:
        return True
    if first == "type":
        return len(code) > 1 and code[1][1] == "("
    if first in STRUCT_FIRST:
        return False
    # assignment: `name [%name | (..)]* = expr` with a top-level '='; labels (name:) excluded
    depth = 0
    for k, s_, _ in code[1:]:
        if s_ in ("(", "["):
            depth += 1
        elif s_ in (")", "]"):
            depth -= 1
        elif s_ == ":" and depth == 0:
            return False
        elif s_ == "=" and depth == 0:
            return True
    return False


def render(lines, rng=None, ops=(), eol="\n", conservative=True):
    """apply the layout operations in `ops` (subset of: trail, comments, blanks, case-upper, case-lower, case-mixed, split, join)"""
    ops = set(ops)
    lay = Layout()
    casemode = "upper" if "case-upper" in ops else ("lower" if "case-lower" in ops else ("mixed" if "case-mixed" in ops else None))

    def cased(s):
        if casemode == "upper":
            return s.upper()
        if casemode == "lower":
            return s.lower()
        if casemode == "mixed":
            return "".join(c.upper() if rng.random() < 0.5 else c.lower() for c in s)
        return s

    def emit(text, stem):
        lay.out.append(text)
        lay.stem.append(set(stem))
        return len(lay.out) - 1

    def emit_tokens(tokens, comment, stem, prefix=""):
        """render a token list on one output line; record identifier positions; tokens are (kind, text, orig_col, orig_line)"""
        t = prefix
        marks = []
        for k, s, oc, ol in tokens:
            if k in ("id", "op") and casemode and not (k == "op" and not s.startswith(".")):
                s2 = cased(s)
            else:
                s2 = s
            if k == "id":
                marks.append(((ol, oc), len(t)))
            t += s2
        ln = emit(t + comment, stem)
        for key, col in marks:
            lay.pos[key] = (ln, col)
        return ln

    i = 0
    n = len(lines)
    while i < n:
        ln = lines[i]
        # inserted material before the line
        if rng is not None and not ln.opaque:
            if "blanks" in ops and rng.random() < 0.15:
                for _ in range(rng.randint(1, 3)):
                    emit("" if rng.random() < 0.7 else "   ", ())
            if "comments" in ops and rng.random() < 0.12:
                emit(" " * rng.randint(0, 4) + "! " + rng.choice(["note", "end do", "subroutine x()", "contains", "TODO: end module", "integer :: i"]), ())
        if ln.kind != "code" or ln.opaque:
            emit(ln.raw, {ln.no})
            i += 1
            continue
        toks = [(k, s, oc, ln.no) for k, s, oc in ln.tokens]
        comment = ln.comment
        stem = {ln.no}
        code = [t for t in toks if t[0] != "ws"]
        is_include = bool(KEYWORD_FIRST.match(ln.raw))
        plain = bool(code) and not is_include and not any(t[0] == "semi" for t in toks)
        movable = plain and (not conservative or statement_is_safe(ln))
        # join with the following statement
        if "join" in ops and movable and not comment and i + 1 < n and rng.random() < 0.2:
            nx = lines[i + 1]
            nxcode = [t for t in nx.tokens if t[0] != "ws"]
            if nx.kind == "code" and not nx.opaque and nxcode and not nx.comment and not any(t[0] == "semi" for t in nx.tokens) \
                    and not KEYWORD_FIRST.match(nx.raw) and not any(t[0] == "str" for t in nx.tokens) and not any(t[0] == "str" for t in toks) \
                    and (not conservative or statement_is_safe(nx)):
                sep = rng.choice(["; ", " ; ", ";"])
                lead = [(k, s, oc, nx.no) for k, s, oc in nx.tokens]
                while lead and lead[0][0] == "ws":
                    lead = lead[1:]
                toks = toks + [("semi", sep, -1, ln.no)] + lead
                stem = {ln.no, nx.no}
                i += 1
                emit_tokens(toks, "", stem)
                i += 1
                continue
        # trailing comment
        if "comments" in ops and plain and not comment and rng.random() < 0.15:
            comment = " " * rng.randint(1, 3) + "! " + rng.choice(["c", "end", "x = 1", "end if"])
        if "trail" in ops and rng.random() < 0.3:
            comment = comment + " " * rng.randint(1, 5)
        # split over continuation lines
        if "split" in ops and movable and rng.random() < 0.3 and len(code) >= 3:
            # candidate boundaries: between two non-ws tokens (index in toks)
            idx = [j for j in range(1, len(toks)) if toks[j][0] != "ws" and any(t[0] != "ws" for t in toks[:j])]
            # never split right after a leading label-like number or inside `name(` directly after a type keyword is fine in free form
            cuts = sorted(rng.sample(idx, min(len(idx), rng.choice([1, 1, 2]))))
            parts = []
            prev = 0
            for c in cuts:
                parts.append(toks[prev:c])
                prev = c
            parts.append(toks[prev:])
            indent = re.match(r"\s*", ln.raw).group()
            for pn, part in enumerate(parts):
                last = pn == len(parts) - 1
                prefix = ""
                if pn > 0:
                    prefix = indent + "   " + ("& " if rng.random() < 0.5 else "")
                    while part and part[0][0] == "ws":
                        part = part[1:]
                    if rng.random() < 0.2:
                        emit(rng.choice(["", "   ", indent + "! between continuation lines", "!", indent + "  "]), ())
                tail = (" &" if not last else "")
                if last:
                    emit_tokens(part, comment, stem, prefix)
                else:
                    emit_tokens(part + [("amp", tail, -1, ln.no)], "", stem, prefix)
            i += 1
            continue
        emit_tokens(toks, comment, stem)
        i += 1
    return lay


# ---------------------------------------------------------------------------------------------
# fixed-form twin of a free-form text (C14)

DO_RE = re.compile(r"^\s*do\s+[A-Za-z_]\w*\s*=", re.I)
ENDDO_RE = re.compile(r"^\s*end\s*do\s*$", re.I)
MARKS = "&1+$x*"
FIXED_COMMENT_TEXTS = [" note", " call x(a, &", " integer :: i &", "     x = 1 &", " &", " old: x = 1; integer ghost_v", " a; b; end subroutine", "     integer zz_ghost"]


def to_fixed(lines, rng, labelled_do=True, conservative=True):
    """render lexed free-form lines in fixed source form; returns a Layout (None if a line cannot be converted)"""
    lay = Layout()
    # pair DO / END DO for labelled-DO conversion
    pair = {}
    stack = []
    for i, ln in enumerate(lines):
        if ln.kind != "code":
            continue
        if ln.opaque:
            return None
        code_txt = ln.raw.split("!")[0] if not any(t[0] == "str" for t in ln.tokens) else "".join(t[1] for t in ln.tokens)
        if DO_RE.match(code_txt):
            stack.append(i)
        elif re.match(r"^\s*(\w+\s*:\s*)?do\b", code_txt, re.I):
            stack.append(None)
        elif re.match(r"^\s*end\s*do\b", code_txt, re.I):
            if stack:
                o = stack.pop()
                if o is not None and ENDDO_RE.match(code_txt) and not ln.comment:
                    pair[o] = i
    label_of_open, label_of_close = {}, {}
    exec_label = {}  # body line index -> label it carries as terminal statement of a loop
    dropped = {}  # close line index -> close line index whose CONTINUE also terminates this loop (shared terminal label)
    shared_close = set()
    nxt = [10]
    if labelled_do:
        code_idx = [k for k, l in enumerate(lines) if l.kind == "code"]
        nxt_code = {a: b for a, b in zip(code_idx, code_idx[1:])}
        for o, c in sorted(pair.items(), key=lambda oc: oc[1]):
            if o in label_of_open:
                continue
            if rng.random() < 0.6:
                lab = nxt[0]
                nxt[0] += 10
                label_of_open[o] = lab
                label_of_close[c] = lab
                # executable terminal statement: the last statement of the body carries the label and END DO disappears
                prev = max((k for k in code_idx if k < c), default=None)
                if prev is not None and prev > o and prev not in label_of_close and prev not in label_of_open and prev not in dropped \
                        and statement_is_safe(lines[prev]) and not DO_RE.match(lines[prev].raw) and rng.random() < 0.35 \
                        and [t for t in lines[prev].tokens if t[0] != "ws"][0][1].lower() not in ("integer", "real", "type", "use", "character", "logical", "complex", "double"):
                    del label_of_close[c]
                    exec_label[prev] = lab
                    dropped[c] = prev
                    continue
                # directly enclosing loops that end on the following code line may share the terminal statement
                cur = c
                while rng.random() < 0.5:
                    outer = [(o2, c2) for o2, c2 in pair.items() if c2 == nxt_code.get(cur) and o2 < o and o2 not in label_of_open
                             and not any(lines[k].kind != "code" and lines[k].kind != "blank" for k in range(cur + 1, c2))]
                    if not outer:
                        break
                    o2, c2 = outer[0]
                    label_of_open[o2] = lab
                    dropped[c2] = c
                    shared_close.add(c)
                    cur = c2

    def emit(text, stem):
        lay.out.append(text)
        lay.stem.append(set(stem))
        return len(lay.out) - 1

    for i, ln in enumerate(lines):
        if ln.kind == "blank":
            emit("", {ln.no})
            continue
        if ln.kind == "pp":
            emit(ln.raw, {ln.no})
            continue
        if ln.kind == "comment":
            body = ln.raw.lstrip()[1:]
            if body[:1] in "<>!$":
                body = " " + body
            # comment text may end in `&` (it is a comment, not a continued free-form line)
            emit(rng.choice(["C", "c", "*", "!", "d", "D"]) + body + rng.choice(["", "", "", " &", "&", " & ! x"]), {ln.no})
            continue
        if i in dropped:
            # terminated by the shared CONTINUE emitted for the inner loop: that line stands for this END DO as well
            for n_, st_ in enumerate(lay.stem):
                if lines[dropped[i]].no in st_ or any(lines[d2].no in st_ for d2 in dropped if dropped[d2] == dropped[i]):
                    last_n = n_
            lay.stem[last_n].add(ln.no)
            continue
        if rng.random() < 0.04:
            emit(rng.choice(["C", "c", "*", "d", "!"]) + rng.choice(FIXED_COMMENT_TEXTS), ())
        toks = [(k, s, oc, ln.no) for k, s, oc in ln.tokens]
        while toks and toks[0][0] == "ws":
            toks = toks[1:]
        label = "     "
        if i in label_of_open:
            # do v = ...   ->  do <label> v = ...
            out_t = []
            done = False
            for t in toks:
                out_t.append(t)
                if not done and t[0] == "id" and t[1].lower() == "do":
                    out_t.append(("ws", " ", -1, ln.no))
                    out_t.append(("num", str(label_of_open[i]), -1, ln.no))
                    done = True
            toks = out_t
        if i in exec_label:
            lab = str(exec_label[i])
            label = (" " * rng.randint(0, 5 - len(lab)) + lab).ljust(5)
        if i in label_of_close:
            lab = str(label_of_close[i])
            label = (" " * rng.randint(0, 5 - len(lab)) + lab).ljust(5)
            kw = rng.choice(["continue", "CONTINUE"] if i in shared_close else ["continue", "CONTINUE", "end do", "enddo"])
            toks = [("id", kw, -1, ln.no)]
        indent = " " * rng.choice([0, 0, 1, 2, 4])
        # pieces of at most 72 columns, cut at token boundaries
        pieces = [[]]
        width = 6 + len(indent)
        force_split = rng.random() < 0.25 and (not conservative or (statement_is_safe(ln) and i not in label_of_open and i not in label_of_close and i not in exec_label))
        ncode = len([t for t in toks if t[0] != "ws"])
        cut_after = rng.randint(1, max(1, ncode - 1)) if force_split and ncode >= 3 else None
        seen_code = 0
        for t in toks:
            if t[0] != "ws":
                seen_code += 1
            if (width + len(t[1]) > 72 and pieces[-1]) or (cut_after is not None and seen_code == cut_after + 1 and t[0] != "ws" and pieces[-1] and len(pieces) == 1):
                pieces.append([])
                width = 6 + 3
            pieces[-1].append(t)
            width += len(t[1])
        comment = ln.comment
        # tight break: nothing but the line break separates the two tokens (no trailing blank, continuation text starts in column 7)
        tight = len(pieces) > 1 and rng.random() < 0.3
        for pn, piece in enumerate(pieces):
            if pn == 0:
                prefix = label + " " + indent
            else:
                prefix = "     " + rng.choice(MARKS) + ("" if tight else "   ")
                while piece and piece[0][0] == "ws":
                    piece = piece[1:]
            if pn > 0 and rng.random() < 0.12:
                # a comment line between a statement and its continuation line
                emit(rng.choice(["C", "c", "*", "!"]) + rng.choice(FIXED_COMMENT_TEXTS), ())
            if tight and pn < len(pieces) - 1:
                while piece and piece[-1][0] == "ws":
                    piece = piece[:-1]
            t = prefix
            marks = []
            for k, s, oc, ol in piece:
                if k == "id" and oc >= 0:
                    marks.append(((ol, oc), len(t)))
                t += s
            last = pn == len(pieces) - 1
            if last and comment and len(t) + len(comment) <= 130:
                t += comment
            lno = emit(t, {ln.no})
            for key, col in marks:
                lay.pos[key] = (lno, col)
    return lay
