"""Monitors attached from outside: exception hooks, RecursionError RAISE monitor, range walker, result shapes."""
from __future__ import annotations

import functools
import os
import sys
import traceback

from vf.core import REPO, repo_first

repo_first()

FORTLS_DIR = os.path.join(os.path.realpath(REPO), "fortls")


# ---------------------------------------------------------------------------------------------
# exception hook: wrap a method so that the monitor learns *what* was raised and *where*,
# even when the caller swallows it and only reports "Error during parsing".


class ExcLog:
    def __init__(self):
        self.events = []  # (label, exc type name, innermost fortls function, message, tb text)
        self.calls = {}

    def take(self):
        ev, self.events = self.events, []
        return ev


def innermost_fortls_frame(tb):
    func, fname = "?", "?"
    for fs in traceback.extract_tb(tb):
        if "fortls" in fs.filename and "/vf/" not in fs.filename:
            func, fname = fs.name, os.path.basename(fs.filename)
    return func, fname


def hook_exceptions(cls, name, label, log: ExcLog):
    orig = getattr(cls, name)
    if getattr(orig, "_vf_hooked", False):
        orig._vf_log[0] = log
        return
    box = [log]

    @functools.wraps(orig)
    def wrapper(*a, **k):
        box[0].calls[label] = box[0].calls.get(label, 0) + 1
        try:
            return orig(*a, **k)
        except Exception as e:
            func, fname = innermost_fortls_frame(e.__traceback__)
            box[0].events.append((label, type(e).__name__, func, str(e)[:200], "".join(traceback.format_tb(e.__traceback__)[-4:])[-1200:]))
            raise

    wrapper._vf_hooked = True
    wrapper._vf_log = box
    setattr(cls, name, wrapper)


# ---------------------------------------------------------------------------------------------
# RecursionError monitor (sys.monitoring RAISE): counts RecursionErrors raised in fortls frames
# even if they are swallowed by a bare except.


class RecursionMonitor:
    TOOL = 4

    def __init__(self):
        self.count = 0
        self.where = None
        self.active = False
        mon = getattr(sys, "monitoring", None)
        if mon is None:
            return
        try:
            mon.use_tool_id(self.TOOL, "vf-recursion")
        except ValueError:
            pass
        mon.register_callback(self.TOOL, mon.events.RAISE, self._cb)
        mon.set_events(self.TOOL, mon.events.RAISE)
        self.active = True

    def _cb(self, code, offset, exc):
        if isinstance(exc, RecursionError) and "fortls" in code.co_filename and "/vf/" not in code.co_filename:
            if self.count == 0:
                self.where = f"{os.path.basename(code.co_filename)}:{code.co_name}"
            self.count += 1

    def take(self):
        n, w = self.count, self.where
        self.count, self.where = 0, None
        return n, w


_recmon = None


def recursion_monitor() -> RecursionMonitor:
    global _recmon
    if _recmon is None:
        _recmon = RecursionMonitor()
    return _recmon


# ---------------------------------------------------------------------------------------------
# range walker: every Range / Location in any outgoing payload must address an existing place


def _is_pos(d):
    return isinstance(d, dict) and set(d.keys()) >= {"line", "character"}


def _is_range(d):
    return isinstance(d, dict) and "start" in d and "end" in d and _is_pos(d["start"]) and _is_pos(d["end"])


def walk_ranges(payload, default_uri=None, path=""):
    """yield (uri, range, json-path) for every range in payload; uri None if not determinable"""
    if isinstance(payload, dict):
        uri = payload.get("uri", default_uri) if isinstance(payload.get("uri", None), str) else default_uri
        # WorkspaceEdit.changes: {uri: [TextEdit]}
        if "changes" in payload and isinstance(payload["changes"], dict):
            for u, edits in payload["changes"].items():
                yield from walk_ranges(edits, u, path + ".changes")
        for k, v in payload.items():
            if k == "changes" and isinstance(v, dict):
                continue
            if _is_range(v):
                yield (uri, v, path + "." + k)
            else:
                yield from walk_ranges(v, uri, path + "." + k)
    elif isinstance(payload, list):
        for n, v in enumerate(payload):
            if _is_range(v):
                yield (default_uri, v, path + f"[{n}]")
            else:
                yield from walk_ranges(v, default_uri, path + "[]")


def check_range(rg, lines):
    """None if the range addresses an existing place in `lines`, else a reason"""
    s, e = rg["start"], rg["end"]
    for nm, p in (("start", s), ("end", e)):
        if not isinstance(p["line"], int) or not isinstance(p["character"], int):
            return f"{nm}: non-integer position"
        if not (0 <= p["line"] < len(lines)):
            return f"{nm}.line {p['line']} outside [0,{len(lines)})"
        if not (0 <= p["character"] <= len(lines[p["line"]])):
            return f"{nm}.character {p['character']} outside [0,{len(lines[p['line']])}]"
    if (s["line"], s["character"]) > (e["line"], e["character"]):
        return "start > end"
    return None


# ---------------------------------------------------------------------------------------------
# result shapes (hand written from the LSP specification; null is always allowed)


def _is_location(x):
    return isinstance(x, dict) and isinstance(x.get("uri"), str) and _is_range(x.get("range"))


def _is_markup(x):
    if isinstance(x, str):
        return True
    if isinstance(x, dict):
        return ("kind" in x and isinstance(x.get("value"), str)) or ("language" in x and isinstance(x.get("value"), str))
    if isinstance(x, list):
        return all(_is_markup(y) for y in x)
    return False


def shape_ok(method, r):
    """None if `r` has the shape the protocol prescribes for `method`, else a reason"""
    if r is None:
        return None
    m = method.split("/")[-1]
    if m == "hover":
        if not (isinstance(r, dict) and "contents" in r and _is_markup(r["contents"])):
            return "Hover must be {contents: MarkupContent|MarkedString|[]}"
        if "range" in r and not _is_range(r["range"]):
            return "Hover.range malformed"
    elif m in ("definition", "implementation"):
        if _is_location(r):
            return None
        if isinstance(r, list) and all(_is_location(x) for x in r):
            return None
        return "must be Location | Location[]"
    elif m == "references":
        if not (isinstance(r, list) and all(_is_location(x) for x in r)):
            return "must be Location[]"
    elif m == "documentHighlight":
        # fortls answers highlight with Locations; a DocumentHighlight needs at least a range
        if not (isinstance(r, list) and all(isinstance(x, dict) and _is_range(x.get("range")) for x in r)):
            return "must be a list of objects with a range"
    elif m == "rename":
        if not isinstance(r, dict):
            return "must be WorkspaceEdit"
        ch = r.get("changes")
        if ch is not None:
            if not isinstance(ch, dict):
                return "changes must be an object"
            for u, edits in ch.items():
                if not (isinstance(edits, list) and all(isinstance(e, dict) and _is_range(e.get("range")) and isinstance(e.get("newText"), str) for e in edits)):
                    return "changes[uri] must be TextEdit[]"
    elif m == "signatureHelp":
        if not (isinstance(r, dict) and isinstance(r.get("signatures"), list)):
            return "must be {signatures: []}"
        for s in r["signatures"]:
            if not (isinstance(s, dict) and isinstance(s.get("label"), str)):
                return "SignatureInformation.label must be a string"
            for p in s.get("parameters", []) or []:
                if not (isinstance(p, dict) and isinstance(p.get("label"), (str, list))):
                    return "ParameterInformation.label"
        for k in ("activeSignature", "activeParameter"):
            if k in r and r[k] is not None and not isinstance(r[k], int):
                return f"{k} must be an integer"
    elif m == "completion":
        items = r.get("items") if isinstance(r, dict) else r
        if not isinstance(items, list):
            return "must be CompletionItem[] | CompletionList"
        for it in items:
            if not (isinstance(it, dict) and isinstance(it.get("label"), str)):
                return "CompletionItem.label must be a string"
    elif m == "codeAction":
        if not isinstance(r, list):
            return "must be (Command|CodeAction)[]"
        for it in r:
            if not (isinstance(it, dict) and isinstance(it.get("title"), str)):
                return "CodeAction.title must be a string"
    elif m == "documentSymbol":
        if not isinstance(r, list):
            return "must be a list"
        for it in r:
            if not (isinstance(it, dict) and isinstance(it.get("name"), str) and isinstance(it.get("kind"), int)
                    and (_is_location(it.get("location")) or _is_range(it.get("range")))):
                return "SymbolInformation malformed"
    elif m == "symbol":
        if not isinstance(r, list):
            return "must be a list"
        for it in r:
            if not (isinstance(it, dict) and isinstance(it.get("name"), str) and isinstance(it.get("kind"), int) and _is_location(it.get("location"))):
                return "SymbolInformation malformed"
    return None
