"""Cross-file dependency workspaces with a second version of the file everything else depends on (C09 `relink` class).

`gen(rng)` returns (files, dep, variants): `files` is a consistent three-file workspace (provider module `dep`, a consumer
module with types extending / binding / renaming / calling the provider's entities, a main program); `variants` are
rewritten provider texts in which entities changed shape: dummy-argument lists shortened or reordered, the passed-object
dummy moved or removed, subroutines turned into functions, components, bindings, types, interfaces and variables removed
or replaced by entities of another kind, the module renamed or emptied.  The consumer files are *not* edited: after the
provider is re-saved the server re-links their untouched syntax trees against the new objects.
"""
from __future__ import annotations


def _args(names):
    return ", ".join(names)


def provider(rng, v2=False):
    """one version of the provider module; v2=True draws the mutated shapes"""
    L = []
    modname = "impl_mod" if not (v2 and rng.random() < 0.1) else "impl_mod_renamed"
    L.append(f"module {modname}")
    L.append("  implicit none")
    drop = (lambda p=0.3: v2 and rng.random() < p)
    # inner type
    if not drop(0.2):
        L += ["  type :: inner_t", "    integer :: " + ("ic" if not drop() else "ic_other"), "  end type inner_t"]
    # base type
    if not drop(0.2):
        L.append("  type :: base_t" if not drop(0.15) else "  type, abstract :: base_t")
        if not drop():
            L.append("    integer :: bc1")
        if not drop():
            L.append("    real :: bc2")
        if not drop():
            L.append("    type(inner_t) :: inn" if not drop() else "    integer :: inn")
        binds = []
        if not drop():
            binds.append("    procedure :: bmeth => base_meth")
        if not drop():
            binds.append("    procedure, pass(me) :: bmeth2 => base_meth2" if not drop() else "    procedure, nopass :: bmeth2 => base_meth2")
        if binds:
            L.append("  contains")
            L += binds
        L.append("  end type base_t")
    elif rng.random() < 0.5:
        L.append("  integer :: base_t")
    if not drop():
        n = 2 if not v2 else rng.randint(0, 3)
        an = [f"ia{k}" for k in range(n)]
        L += ["  abstract interface", f"    subroutine iface_sub({_args(an)})"] + [f"      integer :: {a}" for a in an] + ["    end subroutine iface_sub", "  end interface"]
    if not drop():
        L.append("  integer :: shared_v" if not drop() else "  type(inner_t) :: shared_v")
    elif rng.random() < 0.5:
        L += ["  interface shared_v", "    module procedure gen_i", "  end interface"]
    L.append("contains")

    def proc(name, base_args, self_name, self_decl, can_fun=True):
        if drop(0.15):
            return
        n = len(base_args) if not v2 else rng.randint(0, 4)
        args = [f"{name}_a{k}" for k in range(n)]
        has_self = not drop(0.4)
        if has_self:
            args.insert(rng.randrange(len(args) + 1) if v2 or True else len(args), self_name)
        fun = can_fun and ((name.startswith("fun")) != (v2 and rng.random() < 0.3))
        if fun:
            L.append(f"  function {name}({_args(args)}) result({name}_r)")
        else:
            L.append(f"  subroutine {name}({_args(args)})")
        for a in args:
            L.append(f"    {self_decl} :: {a}" if a == self_name else f"    real :: {a}")
        if fun:
            L.append(f"    real :: {name}_r")
            L.append(f"    {name}_r = 1.0")
        L.append(f"  end {'function' if fun else 'subroutine'} {name}")

    proc("area_impl", ["s", "r"], "self", "class(*), intent(in)")
    proc("fun_impl", ["k"], "self", "class(*), intent(in)")
    proc("base_meth", [], "self", "class(base_t)")
    proc("base_meth2", ["x"], "me", "class(base_t)")
    if not drop():
        L += ["  subroutine gen_i(x)", "    integer :: x", "  end subroutine gen_i"]
    if not drop():
        L += ["  subroutine gen_r(x)", "    real :: x", "  end subroutine gen_r"]
    L.append(f"end module {modname}")
    if v2 and rng.random() < 0.06:
        return ""
    if v2 and rng.random() < 0.08:
        k = rng.randint(1, len(L))
        return "\n".join(L[:k]) + "\n"
    return "\n".join(L) + "\n"


def consumer(rng):
    passes = ["pass(self)", "pass(self)", "pass", "nopass"]
    L = ["module shapes",
         "  use impl_mod, only: area_impl, fun_impl, base_t, inner_t, gen_i, gen_r, iface_sub, sv => shared_v, bm2 => base_meth2",
         "  implicit none",
         "  type, extends(base_t) :: shape_t",
         "    real :: w",
         "    procedure(iface_sub), pointer, nopass :: pp => null()",
         "    type(inner_t) :: own_inner",
         "  contains",
         f"    procedure, {rng.choice(passes)} :: area => area_impl",
         f"    procedure, {rng.choice(passes)} :: fval => fun_impl",
         "    procedure, nopass :: np => gen_i",
         "    procedure :: bmeth2 => over_meth2" if rng.random() < 0.5 else "    procedure, nopass :: other => gen_r",
         "    generic :: gg => area, fval",
         "  end type shape_t",
         "  interface gen",
         "    module procedure gen_i, gen_r",
         "  end interface gen",
         "  type(shape_t) :: global_shape",
         "contains",
         "  subroutine over_meth2(x, me)",
         "    real :: x",
         "    class(shape_t) :: me",
         "  end subroutine over_meth2",
         "  subroutine use_it(s, b)",
         "    type(shape_t) :: s",
         "    class(base_t) :: b",
         "    real :: r",
         "    call s%area(1.0, r)",
         "    r = s%fval(2)",
         "    call s%bmeth()",
         "    call s%bmeth2(1.0)",
         "    call b%bmeth2(1.0)",
         "    s%inn%ic = sv",
         "    s%own_inner%ic = s%bc1",
         "    call gen(r)",
         "    call s%pp(1, 2)",
         "    call s%gg(1.0, r)",
         "    call s%np(3)",
         "    call bm2(1.0, s)",
         "    r = s%bc2 + s%w + global_shape%bc2",
         "    call area_impl(1.0, r, s)",
         "    r = fun_impl(1.0, s)",
         "  end subroutine use_it",
         "end module shapes"]
    return "\n".join(L) + "\n"


MAIN = """program relink_main
  use shapes
  use impl_mod
  implicit none
  type(shape_t) :: q
  type(base_t) :: bb
  real :: r
  call q%area(1.0, r)
  r = q%fval(2)
  call q%bmeth()
  call bb%bmeth2(2.0)
  q%inn%ic = shared_v
  call use_it(q, bb)
  call gen(r)
  call q%gg(2.0, r)
end program relink_main
"""


def gen(rng, nvariants=3):
    files = {"prov/impl.f90": provider(rng, v2=rng.random() < 0.2), "cons/shapes.f90": consumer(rng), "relink_main.f90": MAIN}
    variants = [provider(rng, v2=True) for _ in range(nvariants)]
    return files, "prov/impl.f90", variants
