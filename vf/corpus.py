"""Sample sources of the repository under test (read-only corpus)."""
import os
import re

from vf.core import REPO

SRC_RE = re.compile(r"\.(f|for|ftn|fpp|f77|f90|f95|f03|f08|f18)$", re.I)
_cache = {}


def sample_sources():
    """[(relpath, text)] of every Fortran source under test/test_source, sorted."""
    if "s" in _cache:
        return _cache["s"]
    base = os.path.join(REPO, "test", "test_source")
    out = []
    for dp, dn, fn in os.walk(base):
        dn.sort()
        for f in sorted(fn):
            if SRC_RE.search(f):
                p = os.path.join(dp, f)
                try:
                    with open(p, encoding="utf-8", errors="replace", newline="") as fh:
                        out.append((os.path.relpath(p, base), fh.read()))
                except OSError:
                    pass
    out.sort()
    _cache["s"] = out
    return out


def free_samples(tab_free=True):
    return [(p, t) for p, t in sample_sources()
            if not p.startswith("fixed") and not re.search(r"\.(f|for|ftn|f77)$", p, re.I)
            and (not tab_free or "\t" not in t)]
