#!/bin/bash
# Offline set-up: optional runtime-contract library beside the repository's interpreter.
# Everything else the checks need is the standard library + /repo itself.
HERE="$(cd "$(dirname "${BASH_SOURCE[0]}")" && pwd)"
cd "$HERE"
if [ ! -d .deps/icontract ]; then
  /venv/bin/pip install -q --no-index --find-links /opt/veriftools/wheels --target .deps icontract \
    >/dev/null 2>&1 || echo "setup: icontract not installable, built-in contract wrapper will be used"
fi
/venv/bin/python -B - <<'PY'
import sys, os, shutil
sys.path.insert(0, os.environ.get("VERIF_REPO", "/repo"))
import fortls
print("setup: fortls from", os.path.dirname(fortls.__file__))
for tool in ("gfortran", "cpp", "strace"):
    print("setup:", tool, "->", shutil.which(tool))
PY
exit 0
